"""Engine and check tables for bin/check (see DESIGN.md §3, §4)."""
import os, re, shutil, json

VERIF = os.path.dirname(os.path.dirname(os.path.abspath(__file__)))


# --------------------------------------------------------------------------- generated overlays

def rewrite(kind, repo):
    """Returns {repo-relative path: new content} generated from the CURRENT files of /repo."""
    if kind == "syncseam":
        # every non-test file of internal/outputstream that imports "sync" gets the
        # scheduler-owned drop-in instead (DESIGN §3.3 (3)).
        out = {}
        d = os.path.join(repo, "internal", "outputstream")
        for f in sorted(os.listdir(d)):
            if not f.endswith(".go") or f.endswith("_test.go"):
                continue
            src = open(os.path.join(d, f)).read()
            new, n = re.subn(r'(?m)^(\s*)(?:sync\s+)?"sync"\s*$',
                             r'\1sync "github.com/robustirc/robustirc/internal/verifsim/simsync"', src)
            if n:
                out[os.path.join("internal", "outputstream", f)] = new
        if not out:
            raise RuntimeError('syncseam: no file of internal/outputstream imports "sync"')
        return out
    raise RuntimeError("unknown rewrite " + kind)


def make_modfile(kind, repo, scratch):
    raise RuntimeError("unknown modfile kind " + kind)


# --------------------------------------------------------------------------- crash classifiers

def crash_never(prop, crash):
    return None


# --------------------------------------------------------------------------- tables

ENGINES = {
    "e3/c08": {
        "pkg": "./internal/outputstream",
        "virtual": ["core", "simsync"],
        "add": {"internal/outputstream/zz_verif_c08_test.go": "sim/e3/c08_test.go"},
        "rewrite": ["syncseam"],
        "gomaxprocs": 1,
        "chunk": {"quick": 150, "thorough": 1500},
    },
}

CHECKS = {
    "C08": {
        "engine": "e3/c08",
        "runs": {"quick": 20000, "thorough": 2000000},
        "level": "exploration",
        "rule": ("scenario = bounded program (1 sequential task of 20-120 ops, or 1 applier/compactor + 1-3 readers + optional canceller, "
                 "<=6 writer ops) plus an explicit schedule (choice list over lock-acquisition points, uniform or sticky); "
                 "non-trivial = a GetNext blocked on the condition variable and later returned, or blocked while an existing batch was deleted, "
                 "or (sequential) >2 GetNext results and >2 deletions of existing batches; distinct = distinct event-trace digest "
                 "(operations and every scheduling decision among >=2 runnable tasks)"),
        "probes": ["getnext_blocked", "getnext_returned_after_wait", "deletes_tail", "deletes_nonexisting", "cancels", "getnext_cancelled"],
        "components": {"real": ["internal/outputstream (outputstream.go, serialization.go)", "goleveldb"],
                       "stubbed": ["package sync as used by outputstream.go -> simsync (scheduler-owned locks and condition variable)"]},
        "claim": ("Seeded search over bounded concurrent programs and explicit lock-level schedules of the real OutputStream (Add/Delete/GetNext/Get/InterruptGetNext) "
                  "against a sorted-map model with a version timeline: wrong batch, wrong contents, panic, reader stuck although a successor exists or after cancel+interrupt are all detected; "
                  "every failure is shrunk and replays exactly. Sampling (10^4 quick, 10^6 thorough), not the systematic enumeration the property text mentions."),
        "note": "trusts simsync (the sync drop-in) to admit only interleavings the real sync package admits; goleveldb runs real; programs are bounded (<=5 tasks, <=~10 concurrent ops).",
        "technique": "deterministic simulation: cooperative scheduler over lock-acquisition points, seeded schedules, reference-model oracle",
        "design_ref": "DESIGN.md §4 C08, §3.3",
        "assumptions": ["simsync faithfully implements sync.RWMutex/Cond semantics (no spurious wake-ups, FIFO Signal)",
                        "sampling of interleavings, not enumeration"],
    },
}

NOT_APPLICABLE = {
    "C18": ("pure function of its input (encode/decode round trips): no schedule, clock, fault or second party for a simulator to own; "
            "deterministic simulation with fault injection does not apply (DESIGN.md §5). Readers/codecs are exercised as a by-product of C02/C09 runs only."),
}
