"""Engine and check tables for bin/check (see DESIGN.md §3, §4)."""
import os, re, shutil, json

VERIF = os.path.dirname(os.path.dirname(os.path.abspath(__file__)))


# --------------------------------------------------------------------------- generated overlays

def rewrite(kind, repo):
    """Returns {repo-relative path: new content} generated from the CURRENT files of /repo."""
    if kind == "syncseam":
        # every non-test file of internal/outputstream that imports "sync" gets the
        # scheduler-owned drop-in instead (DESIGN §3.3 (3)).
        out = {}
        d = os.path.join(repo, "internal", "outputstream")
        for f in sorted(os.listdir(d)):
            if not f.endswith(".go") or f.endswith("_test.go"):
                continue
            src = open(os.path.join(d, f)).read()
            new, n = re.subn(r'(?m)^(\s*)(?:sync\s+)?"sync"\s*$',
                             r'\1sync "github.com/robustirc/robustirc/internal/verifsim/simsync"', src)
            if n:
                out[os.path.join("internal", "outputstream", f)] = new
        if not out:
            raise RuntimeError('syncseam: no file of internal/outputstream imports "sync"')
        return out
    if kind == "diskseam":
        # leveldb.OpenFile / leveldb.RecoverFile of internal/raftstore -> verifdisk (DESIGN §3.3 (2))
        rel = os.path.join("internal", "raftstore", "leveldb.go")
        src = open(os.path.join(repo, rel)).read()
        new, n1 = re.subn(r'\bleveldb\.OpenFile\(', 'verifdisk.OpenFile(', src)
        new, n2 = re.subn(r'\bleveldb\.RecoverFile\(', 'verifdisk.RecoverFile(', new)
        if n1 == 0:
            raise RuntimeError("diskseam: internal/raftstore/leveldb.go no longer calls leveldb.OpenFile")
        new, n3 = re.subn(r'(?m)^import \(\n', 'import (\n\t"github.com/robustirc/robustirc/internal/verifsim/verifdisk"\n', new, count=1)
        if n3 == 0:
            raise RuntimeError("diskseam: import block not found")
        return {rel: new}
    raise RuntimeError("unknown rewrite " + kind)


def make_modfile(kind, repo, scratch):
    """Dependencies cannot be overlaid; a seam inside one is reached with -modfile and a replace
    directive pointing at a scratch copy of the module (DESIGN §3.3)."""
    if kind == "robustinternal":
        import subprocess
        moddir = subprocess.run(["go", "list", "-m", "-f", "{{.Dir}}", "github.com/robustirc/internal"], cwd=repo, capture_output=True, text=True,
                                env=dict(os.environ, GOFLAGS="-mod=mod", GOPROXY="off", GOSUMDB="off")).stdout.strip()
        if not moddir or not os.path.isdir(moddir):
            raise RuntimeError("cannot locate module github.com/robustirc/internal")
        dst = os.path.join(scratch, "mods", "robustirc-internal")
        if not os.path.isdir(dst):
            shutil.copytree(moddir, dst)
            for root, dirs, files in os.walk(dst):
                os.chmod(root, 0o755)
                for f in files:
                    os.chmod(os.path.join(root, f), 0o644)
            shutil.copy(os.path.join(VERIF, "sim", "modoverride", "robusthttp_verif_override.go"), os.path.join(dst, "robusthttp", "zz_verif_override.go"))
        mf = os.path.join(scratch, "alt.mod")
        mod = open(os.path.join(repo, "go.mod")).read()
        mod += "\nreplace github.com/robustirc/internal => %s\n" % dst
        open(mf, "w").write(mod)
        shutil.copy(os.path.join(repo, "go.sum"), os.path.join(scratch, "alt.sum"))
        return mf
    raise RuntimeError("unknown modfile kind " + kind)


# --------------------------------------------------------------------------- crash classifiers

def crash_never(prop, crash):
    return None


_RACE_FRAME = re.compile(r"^  (\S+)\(.*\)\n\s+(\S+?):(\d+)", re.M)


def race_reports(prop, stderr):
    """Turns the race detector's reports into C20 violations. Only reports in which at least one of the
    two conflicting accesses happens in robustirc code proper (not in harness files, dependencies or the
    runtime) count; the signature is the pair of robustirc functions performing the accesses."""
    out = []
    seen = set()
    for block in stderr.split("WARNING: DATA RACE")[1:]:
        block = block.split("==================")[0]
        # the two access stacks precede the "Goroutine N (...) created at:" parts
        head = re.split(r"\nGoroutine \d+ \(", block)[0]
        stacks = re.split(r"\n\n", head.strip())
        funcs = []
        for st in stacks[:2]:
            fn = None
            for m in _RACE_FRAME.finditer(st + "\n"):
                name, path = m.group(1), m.group(2)
                if path.startswith("/opt/veriftools/go") or "/src/runtime/" in path or "/src/sync/" in path:
                    continue  # runtime / sync internals performing the access on behalf of the caller
                # the first frame outside the Go runtime is the code that performs the access
                if path.startswith(os.environ.get("VERIF_REPO", "/repo").rstrip("/") + "/") and "zz_verif" not in path and "/verifsim/" not in path:
                    fn = name.split("/")[-1]
                break
            funcs.append(fn)
        if not any(funcs):
            continue
        a, b = [f or "(outside robustirc)" for f in (funcs + [None, None])[:2]]
        sig = "race:" + "|".join(sorted([a, b]))
        if sig in seen:
            continue
        seen.add(sig)
        out.append({"property": "C20", "class": "data-race", "sig": sig,
                    "detail": "the race detector reports conflicting accesses by %s and %s:\n%s" % (a, b, head.strip()[:1800]), "step": -1})
    return out


def crash_fsm(prop, crash):
    """FSM.Apply turns a panic of the state machine into 'mark entry as message of death' + glog.Fatalf
    (process exit 255). A worker that died this way while applying a generated entry is a C06 violation."""
    se = crash.get("stderr", "")
    so = crash.get("stdout", "")
    if "as message of death" not in se and "statemachine.go" not in se:
        return None
    m = re.findall(r"@@APPLYING (\S+) role=(\S+)", so)
    cmd, role = (m[-1] if m else ("?", "?"))
    fatal = re.findall(r"(?m)^F\d{4} [^\]]*\] (.*)$", se)
    text = fatal[-1] if fatal else "panic"
    kind = "panic"
    if "nil pointer" in text:
        kind = "nil-deref"
    elif "index out of range" in text or "slice bounds" in text:
        kind = "out-of-range"
    return {"property": "C06", "class": "apply-panic", "sig": "panic:%s:%s:%s" % (cmd, role, kind),
            "detail": "the node process terminated while applying a %s line from a %s session: %s (entry marked as message of death)" % (cmd, role, text[:300]),
            "step": -1}


# --------------------------------------------------------------------------- tables

E1_ADD = {
    "internal/ircserver/zz_verif_probe.go": "sim/e1/probe_ircserver.go",
    "zz_verif_e1_node_test.go": "sim/e1/e1_node_test.go",
    "zz_verif_e1_gen_test.go": "sim/e1/e1_gen_test.go",
    "zz_verif_e1_exec_test.go": "sim/e1/e1_exec_test.go",
    "zz_verif_e1_model_test.go": "sim/e1/e1_model_test.go",
}

E2_ADD = {
    "internal/ircserver/zz_verif_probe.go": "sim/e1/probe_ircserver.go",
    "zz_verif_e1_node_test.go": "sim/e1/e1_node_test.go",
    "zz_verif_e2_cluster_test.go": "sim/e2/e2_cluster_test.go",
}

C07_ADD = {
    "internal/ircserver/zz_verif_probe.go": "sim/e1/probe_ircserver.go",
    "zz_verif_e1_node_test.go": "sim/e1/e1_node_test.go",
    "zz_verif_c07_test.go": "sim/c07/c07_test.go",
}

ENGINES = {
    "e2race": {
        "pkg": ".",
        "virtual": ["core"],
        "add": E2_ADD,
        "modfile": "robustinternal",
        "race": True,
        "gomaxprocs": 4,
        "fixed_gomaxprocs": True,
        "chunk": {"quick": 1, "thorough": 1},
        "env": {"GORACE": "halt_on_error=0 exitcode=0 history_size=3"},
        "stderr_classifier": "race_reports",
        "crash_classifier": "crash_fsm",
        "kind": "E2 built with -race: concurrent operation groups inside the simulated cluster; oracle = Go race detector",
    },
    "c07": {
        "pkg": ".",
        "virtual": ["core"],
        "add": C07_ADD,
        "gomaxprocs": 2,
        "chunk": {"quick": 8, "thorough": 50},
        "kind": "C07: every node incarnation is a child process of the worker (real FSM, stores, glog.Fatalf exit), parent inspects the durable log and compares with a twin",
    },
    "e2": {
        "pkg": ".",
        "virtual": ["core"],
        "add": E2_ADD,
        "modfile": "robustinternal",
        "gomaxprocs": 1,
        "fixed_gomaxprocs": True,
        "chunk": {"quick": 25, "thorough": 100},
        "crash_classifier": "crash_fsm",
        "kind": "E2 clustersim: 1 or 3 nodes with real FSM, stores, hashicorp/raft, rafthttp transport and api.HTTP handlers in one synctest bubble; simulated wire and protocol-following clients",
    },
    "e1": {
        "pkg": ".",
        "virtual": ["core"],
        "add": E1_ADD,
        "gomaxprocs": 1,
        "chunk": {"quick": 100, "thorough": 500},
        "crash_classifier": "crash_fsm",
        "env": {"VERIF_REPEAT": "8"},
        "kind": "E1 fsmsim: real FSM/ircserver/outputstream/raftstore/FileSnapshotStore per node inside a synctest bubble; consensus stubbed by a single-copy reference log with arbitrary lag",
    },
    "c09": {
        "pkg": "./internal/raftstore",
        "virtual": ["core", "verifdisk"],
        "add": {"internal/raftstore/zz_verif_c09_test.go": "sim/c09/c09_test.go"},
        "rewrite": ["diskseam"],
        "gomaxprocs": 2,
        "chunk": {"quick": 100, "thorough": 1000},
        "kind": "C09 harness: real LevelDBStore + goleveldb on real files through a counting/forking storage.Storage wrapper; plain-map model",
    },
    "c19": {
        "pkg": "./internal/timesafeguard",
        "virtual": ["core"],
        "add": {"internal/timesafeguard/zz_verif_c19_test.go": "sim/c19/c19_test.go"},
        "modfile": "robustinternal",
        "gomaxprocs": 1,
        "chunk": {"quick": 500, "thorough": 5000},
        "kind": "C19 harness: real timesafeguard + health.GetServerStatus over a simulated wire (robusthttp client override) inside a synctest bubble",
    },
    "e3/c04": {
        "pkg": "./internal/api",
        "virtual": ["core", "simsync"],
        "add": {"internal/api/zz_verif_c04_test.go": "sim/e3/c04_test.go"},
        "rewrite": ["syncseam"],
        "gomaxprocs": 1,
        "chunk": {"quick": 200, "thorough": 2000},
        "kind": "E3 locksim + bubble: real api.getMessages on real OutputStreams with scheduler-owned locks; simulated client, disconnects, lagging replica store",
    },
    "e3/c08": {
        "pkg": "./internal/outputstream",
        "virtual": ["core", "simsync"],
        "add": {"internal/outputstream/zz_verif_c08_test.go": "sim/e3/c08_test.go"},
        "rewrite": ["syncseam"],
        "gomaxprocs": 1,
        "chunk": {"quick": 150, "thorough": 1500},
    },
}

def e1_check(prop, runs_q, runs_t, rule, claim, probes, note="E1 components are real except consensus (stub: single-copy log) and main() wiring (re-created by the harness); inputs are sampled from a grammar, not enumerated."):
    return {
        "engine": "e1", "runs": {"quick": runs_q, "thorough": runs_t}, "level": "exploration", "rule": rule, "claim": claim, "probes": probes, "note": note,
        "components": {"real": ["statemachine.go/compaction.go (FSM Apply/Snapshot/Persist/Restore)", "internal/ircserver", "internal/outputstream", "internal/raftstore + goleveldb", "hashicorp/raft FileSnapshotStore", "internal/robust, internal/config"],
                       "stubbed": ["consensus (hashicorp/raft core): single-copy reference log handing committed entries to nodes with arbitrary lag", "main() wiring", "HTTP API"]},
        "assumptions": ["virtual clock = testing/synctest bubble", "map iteration order is the Go runtime's own per-iteration randomisation (not seeded)"],
        "worker_timeout": {"quick": 900, "thorough": 3600},
    }


CHECKS = {
    "C01": e1_check("C01", 4000, 200000,
        "scenario = explicit list of log-producing steps (create/line/delete/config/raft-internal/marked entry), clock advances, and per-node schedule/fault steps (apply with lag, snapshot at chosen horizon, persist failure, restart, InstallSnapshot, save+load); 2-4 replicas of the same log; non-trivial = >=10 per-entry outputs compared between replicas and >=1 output with >=2 recipients; distinct = event-trace digest",
        "Every entry's output (ids, bytes, order, recipient sets; numeric 003 masked), Apply result and full reflected state are compared between 2-4 real replicas that apply the same log under different lag, restarts, snapshot/restore and map-iteration orders; divergence is reported with the entry.",
        ["outputs_compared", "state_comparisons", "multi_recipient_outputs", "lagging_applies", "restarts"]),
    "C02": e1_check("C02", 4000, 300000,
        "same scenario space as C01, biased to snapshot/persist-failure/restart/InstallSnapshot steps; the compaction time of each snapshot is chosen relative to entry timestamps (nothing / a prefix / everything older than the horizon; or the clock); non-trivial = >=2 persisted snapshots and >=1 restore, or a snapshot that folded every stored entry followed by a restore, or a persist failure followed by a successful snapshot; distinct = event-trace digest",
        "A node that snapshots, fails persisting, restarts, restores (own or installed snapshot) is compared with a twin that applied the whole log without ever snapshotting: full reflected state, per-entry output of all later entries, output of every retained id, exactness of what each Snapshot() deleted (computed from log timestamps and the session expiration in force), and the horizon actually used.",
        ["snapshots_persisted", "snapshots_folded_all", "snapshots_folding_nothing", "persist_failures", "persist_skipped_crash", "restores", "installs", "restarts", "retained_outputs_compared", "raft_internal_entries"]),
    "C03": e1_check("C03", 4000, 300000,
        "same scenario space; 'cycle' steps serialize a node's IRC state and load it into a fresh instance in place at arbitrary cut points; non-trivial = >=1 cycle or restore with >=20 entries applied afterwards; distinct = event-trace digest",
        "Save+load is a fault event at arbitrary cuts: the reflected state (every field, by reflection) must be identical right after load, and the cycled node must produce the same output as the never-serialized twin for the whole continuation and end in the same state.",
        ["cycles", "entries_after_cycle", "state_comparisons"]),
    "C06": e1_check("C06", 5000, 600000,
        "same scenario space; lines are drawn from a grammar of all client commands x parameter shapes (missing, empty, empty trailing, existing/non-existing/other-case targets, lists) plus garbage, from unregistered/registered/operator sessions, and protocol-conforming services lines from an authenticated link; non-trivial = >=20 lines applied; distinct = event-trace digest",
        "No applied entry may panic on any replica, in states reached through lag, restart, restore and save+load. A panic inside FSM.Apply terminates the worker the way it terminates a node (message-of-death path); the runner classifies that exit as the violation.",
        ["lines_applied", "services_entries", "restores", "cycles"],
        note="The simulator contributes reachable states and roles; the input dimension is sampled from a grammar (weaker half). Services lines are kept protocol-conforming (prefix present where the protocol has one, full-form NICK, >=1 parameter for MODE/JOIN/PART)."),
    "C12": e1_check("C12", 4000, 300000,
        "same scenario space; every output message of every entry on the never-faulted node is checked; non-trivial = >=1 relayed channel message with >=2 potential recipients and >=2 membership-changing events; distinct = event-trace digest",
        "Per output message: recipients of a channel PRIVMSG/NOTICE must equal the other current members (services links aside); private messages only to the owner of the target nickname; numerics/ERROR/PONG only to the causing or closed session; JOIN/PART/KICK/TOPIC/MODE/NICK/QUIT only to sessions sharing the affected channel(s) and the subject; every session-derived prefix must be the current identity of that session and, for relayed client lines, of the sender.",
        ["relayed_checked", "relayed_checked_multi", "membership_events", "multi_recipient_outputs"]),
    "C13": e1_check("C13", 4000, 300000,
        "same scenario space; every entry of a non-services session is a transition (state before, input, state after) validated against the rights held before; non-trivial = >=3 transitions that changed privileged state; distinct = event-trace digest",
        "Transition validator over the white-box privileged state: any change of modes/keys/bans/operator status/topic/membership-by-kick/invitations/IRC-operator or services-link status/network bans/other sessions' existence must be justified by the actor's rights just before (chanop, membership, oper via configured credentials, invitation, exact key, no matching ban, valid captcha verified independently with the network secret).",
        ["privileged_transitions_checked", "joins_to_existing_checked", "transitions_checked"]),
    "C14": e1_check("C14", 4000, 300000,
        "same scenario space, histories mix NICK/JOIN/PART/KICK/QUIT/KILL/GLINE, deletion, expiry, services SVSNICK/SVSJOIN/SVSPART/KILL/QUIT, case-only nick changes; non-trivial = >=20 invariant walks and >=3 membership events; distinct = event-trace digest",
        "After every applied entry: three-index walk (unique nicknames under an independent case mapping, valid names, symmetric membership, no empty channel, members live and reachable), session/channel limits at creation events, and agreement between announced JOIN/PART/KICK/QUIT events and the membership actually held.",
        ["invariant_walks", "membership_events", "expired_sessions"]),
    "C15": e1_check("C15", 4000, 300000,
        "same scenario space with hostile text (CR, NUL, 600-byte and multi-byte text, leading colon) in every text position; every output line is checked; non-trivial = >=20 output lines checked; distinct = event-trace digest",
        "Every output message must be one IRC line: <=510 bytes, no LF/CR/NUL, optional non-empty prefix, then a command. E1 feeds the state machine what the POST handler would pass on (cut at the first LF); the HTTP half is covered by the cluster engine.",
        ["lines_checked"]),
    "C10": e1_check("C10", 4000, 300000,
        "same scenario space with deliberately colliding client message ids, marked (message-of-death) entries, snapshot/restore/save+load; non-trivial = >=1 client entry whose duplicate marker was compared; distinct = event-trace digest",
        "State-machine half of C10 (the HTTP half - a retried POST is acknowledged without a second log entry - belongs to the cluster engine): after every client entry and every marked entry the session's marker equals that entry's client message id, and the marker agrees on all replicas after lag, restart, snapshot+restore and save+load.",
        ["dup_markers_compared", "marked_entries", "restores", "cycles"],
        note="E1 decides only the state-machine half (marker recorded before processing, for marked entries, surviving serialization, equal on replicas). The handler half (no second log entry for a retried POST) is decided by the cluster engine once registered."),
    "C16": e1_check("C16", 4000, 300000,
        "same scenario space with configuration entries (valid, unparsable, stale/future revision as the log may contain them), GLINE, snapshots, restores, save+load; non-trivial = >=2 accepted configuration entries; distinct = event-trace digest",
        "State-machine half of C16: a parsable Config entry installs exactly that configuration and revision from its log position on, an unparsable one changes nothing, and the whole configuration (reflected field by field, including GLINE bans) agrees on all replicas at equal applied index after lag, restart, snapshot+restore and save+load.",
        ["configs_applied", "configs_unparsable", "restores", "cycles"],
        note="E1 decides the replicated half. The revision check of the HTTP handler (accept only the revision in force, +1 per accepted update) is decided by the cluster engine once registered."),
    "C17": e1_check("C17", 4000, 300000,
        "same scenario space; after every lagging apply the node is asked for every created id and for ids between/newer than applied ones; the leader's expiry sweep runs at virtual times around the expiration threshold; non-trivial = >=5 lag lookups or >=1 expiry sweep; distinct = event-trace digest",
        "Lookups on nodes that applied only a prefix: 'no such session' only for deleted/impossible ids, never for ids newer than anything applied, live sessions always found; the expiry sweep must propose exactly the client sessions idle longer than the expiration in force (never pseudo-clients); ended sessions receive nothing further (nick free / channels left are the C14 walk).",
        ["lag_probes", "expire_sweeps", "expiry_nonempty", "expired_sessions"]),
}

CHECKS.update({
    "C07": {
        "engine": "c07",
        "runs": {"quick": 96, "thorough": 8000},
        "level": "exploration",
        "rule": ("scenario = history (config, 2-4 users, optional services link and operator, traffic, raft-internal entries, clock advances) with one or two poisoned entries (test-only PANIC command) at a seeded position from an ordinary / operator / services / unregistered session; "
                 "optional snapshot before the poisoned entry; after the crash: restart+replay from the durable log, optionally snapshot (folding the marked entry, or keeping it in the log copy) and restart from that snapshot; "
                 "non-trivial = the process died at least once through the message-of-death path and >=1 twin comparison; distinct = digest of incarnation outcomes + log shape"),
        "probes": ["deaths", "marked_entries_verified", "twin_comparisons", "snapshots_after_marking", "restores_after_marking", "child_processes"],
        "components": {"real": ["statemachine.go (applyProto recover path, glog.Fatalf, Apply/Snapshot/Persist/Restore)", "internal/raftstore + goleveldb", "internal/ircserver (PANIC command enabled by environment)", "hashicorp/raft FileSnapshotStore", "process exit (real child processes)"],
                       "stubbed": ["consensus (the parent hands the child its committed log)", "main() wiring"]},
        "claim": ("Each incarnation of the node is a real process: the first dies with status 255 exactly at the poisoned entry; the parent then checks that exactly that entry is stored as message of death and every other entry is unchanged; "
                  "the restarted process replays to the end, its reflected state equals a replica that only ever saw the entry already marked (marker advanced, no other effect, no output), also after a snapshot that folds or retains the marked entry and a restart from it."),
        "note": "exact replay (single-threaded driver, processes run one after another). Position/role of the poisoned entry and snapshot placement are sampled.",
        "technique": "deterministic simulation: crash injection via the code's own failpoint (PANIC command) in child processes, restart with only durable state, twin-replica oracle",
        "assumptions": ["the test-only PANIC command is representative of a handler panic"],
        "worker_timeout": {"quick": 600, "thorough": 3600},
    },
    "C05": {
        "engine": "e2",
        "runs": {"quick": 2000, "thorough": 200000},
        "level": "exploration",
        "rule": ("scenario = 1 or 3 nodes, 2-4 protocol-following clients (one outstanding POST, same ClientMessageId on every retry, next node after a failure, long-poll with lastseen), 3-10 unique-token messages each to a common channel, "
                 "15-50s of virtual time with 0-5 faults: node kill+restart, kill of the leader, kill of all nodes, partition+heal, loss window, slow node, forced snapshot; TrailingLogs knob (default/0/3) so that InstallSnapshot is reached; "
                 "non-trivial = >=3 acknowledged posts, >=1 kill or partition and >=1 POST that failed or was acknowledged only after a retry; distinct = event-trace digest (fault events as they took effect)"),
        "probes": ["kills", "leader_kills", "kill_all", "restarts", "partitions", "loss_windows", "forced_snapshots", "fsm_restores", "posts_acked_after_retry", "post_failures", "streams_compared", "acked_tokens_checked"],
        "components": {"real": ["statemachine.go/compaction.go", "internal/api (DispatchPublic/Private, all handlers used)", "internal/ircserver", "internal/outputstream", "internal/raftstore + goleveldb", "hashicorp/raft v1.7.3 (elections, replication, snapshots, InstallSnapshot)", "robustirc/rafthttp transport", "httputil.ReverseProxy leader proxying"],
                       "stubbed": ["main() wiring (re-created with the same raft configuration values, stores, expiry loop)", "TLS/TCP: requests are handed to the target node's handlers in-process over a simulated wire", "the bridge (simulated clients follow its retry protocol)", "process kill = raft shutdown + stores closed at an arbitrary virtual instant (storage-operation granularity is covered by C09/C02 engines)"]},
        "claim": ("End-to-end on real raft: after the last fault (everything restarted, network healed) all nodes reach a common applied index within 60 virtual seconds, every node serves the identical stream for every session, "
                  "every acknowledged message appears exactly once in every other member's stream in the sender's posting order, unacknowledged ones at most once, and no client receives a message twice over its resumed connections."),
        "note": "replay exactness is measured, not guaranteed: goroutine scheduling inside raft is outside the seam (GOMAXPROCS=1, asyncpreemptoff, seeded math/rand and crypto/rand); oracles are schedule-independent.",
        "technique": "deterministic simulation: whole cluster in one process under a virtual clock, simulated transport with seeded faults, history oracle (exactly-once, order, replica agreement, bounded liveness after faults stop)",
        "assumptions": ["virtual clock = testing/synctest bubble"],
        "worker_timeout": {"quick": 600, "thorough": 3600},
    },
    "C04": {
        "engine": "e3/c04",
        "runs": {"quick": 6000, "thorough": 600000},
        "level": "exploration",
        "rule": ("scenario = output history of 1-12 batches (1-5 replies, each addressed to the client or not), a replica store holding a prefix, and 1-6 connections: connect to the up-to-date or the lagging store with the last received id, "
                 "run the reader k lock-level steps, let the replica apply 1-3 batches (between any two lock acquisitions of the reader, during its 250ms back-off), consume k messages, disconnect after j messages (between or inside batches); "
                 "epilogue: the replica catches up and the client resumes there; non-trivial = a resume in the middle of a batch on a store that did not hold that batch yet, or a mid-batch resume with batches applied during the connection; distinct = event-trace digest"),
        "probes": ["connections_to_replica", "resume_midbatch", "resume_on_replica_without_batch", "resume_midbatch_on_replica_without_batch", "applies_during_connection", "cuts_inside_batch", "backoff_sleeps"],
        "components": {"real": ["internal/api getMessages (resume logic)", "internal/outputstream", "goleveldb"],
                       "stubbed": ["package sync of outputstream -> simsync", "the HTTP handler around getMessages (its per-session filter is mirrored by the simulated client; the real handler runs in the cluster engine)", "raft (replica = second OutputStream fed the same batches later)"]},
        "claim": ("The concatenation of what a client receives over any sampled sequence of connections, disconnect points and replica lags is checked message by message against the sequence addressed to it: no duplicate, no gap, in order; "
                  "after faults stop (replica caught up) a final resume delivers the rest within a bounded number of steps."),
        "note": "resume points are never compacted away in these runs (no Delete); the handler's filter and JSON encoding are outside this engine.",
        "technique": "deterministic simulation: cooperative lock-level scheduler + virtual clock, seeded disconnect/lag schedule, exactly-once/ordering oracle over the recorded client history",
        "worker_timeout": {"quick": 240, "thorough": 3600},
        "assumptions": ["simsync admits only real interleavings"],
    },
    "C19": {
        "engine": "c19",
        "runs": {"quick": 20000, "thorough": 2000000},
        "level": "exploration",
        "rule": ("scenario = 0-5 simulated peers, each with a true clock offset (concentrated around +-2s, also 0, +-300ms, up to +-1h, exact +-1999/2000/2001ms), request and response delays 0-3s, "
                 "and an answer mode (ok / dropped request = 5s timeout in virtual time / HTTP 500 / connection refused / garbage body); both entry points (restart path, join path); safeguard flag on/off; "
                 "non-trivial = >=1 peer answered and the safeguard is on; distinct = digest of the whole configuration"),
        "probes": ["accepted", "refused", "answering_offenders", "silent_peers", "offsets_near_threshold"],
        "components": {"real": ["internal/timesafeguard (collectTime, worstCaseDrift, synchronizedWithNetwork, both exported entry points)", "robustirc/internal/health.GetServerStatus (request construction, 5s context timeout, JSON decoding)"],
                       "stubbed": ["robusthttp.Client -> simulated wire with per-peer virtual delays and clock offsets (documented override point clientImpl, reached through a -modfile replace of a scratch copy)", "peers' status handlers", "log.Fatalf path when the node to join does not answer (not exercised)"]},
        "claim": ("Soundness of the start-up time check over all sampled offsets/delays/answer modes, with real code from the entry points down to the HTTP client seam: whenever the check lets the node join with the safeguard on, every peer that answered has a true clock difference < 2s; "
                  "offenders are named in the refusal; silent peers alone never cause a refusal nor hide an answering offender; the disabled flag always lets the node join."),
        "note": "virtual time from testing/synctest; the true offset is known to the simulator only; main()'s call sites (robustirc.go) are not executed.",
        "technique": "deterministic simulation: simulated peers with clock skew, message delay, loss and errors under a virtual clock; soundness oracle over the true offsets",
        "assumptions": ["peers read their clock between request arrival and response departure"],
    },
    "C09": {
        "engine": "c09",
        "runs": {"quick": 3000, "thorough": 300000},
        "level": "exploration",
        "rule": ("scenario = 5-40 operations drawn from StoreLog(s)/StoreLogProto (append, overwrite, gap, very large indexes; all entry types; replicated-message payloads in both encodings with and without explicit id; extensions; append times), "
                 "DeleteRange (prefix/suffix/middle/all/empty/beyond), GetLog, First/LastIndex, bulk iteration, Set/Get/SetUint64/GetUint64 (incl. empty and binary keys), close+reopen (same or flipped encoding), "
                 "and for any mutating step a kill at its k-th storage operation (optionally torn write) followed by reopening the forked directory; "
                 "non-trivial = >=2 stores, >=1 reopen or kill and >=1 non-empty range deletion; distinct = event-trace digest"),
        "probes": ["stores", "stores_big_index", "delranges_nonempty", "reopens", "encoding_flips", "kills", "kills_inside_operation", "torn_writes", "inflight_op_absent", "inflight_op_complete", "converted_payloads_compared", "stable_sets"],
        "components": {"real": ["internal/raftstore", "internal/raftlog", "internal/robust", "goleveldb (journal, manifest, recovery) on real files"],
                       "stubbed": ["leveldb.OpenFile -> verifdisk.OpenFile: same database on a storage.Storage wrapper that counts file operations and forks the directory at operation k (process-kill model: completed file operations survive, in-flight write may be torn)"]},
        "claim": ("After every mutating operation, after every reopen (same or other encoding) and after a kill at storage-operation granularity, everything the LogStore/StableStore API can be asked (first/last index, every stored and several missing indexes, stable keys, bulk ranges) is compared with a plain map; "
                  "after a kill the in-flight operation must be wholly absent or wholly present. JSON->protobuf conversion must preserve the decoded replicated message."),
        "note": "process-kill model only (no power loss: the store writes with Sync:false by design); goleveldb is trusted as the database; large indexes include the range that sorts around the stable-store key prefix.",
        "technique": "deterministic simulation: seeded operation/fault sequences with kill points at storage-operation granularity, reference-model oracle",
        "assumptions": ["LogCommand payloads are valid replicated messages (ConvertToProto decodes them by design)"],
    },
    "C08": {
        "engine": "e3/c08",
        "runs": {"quick": 20000, "thorough": 2000000},
        "level": "exploration",
        "rule": ("scenario = bounded program (1 sequential task of 20-120 ops, or 1 applier/compactor + 1-3 readers + optional canceller, "
                 "<=6 writer ops) plus an explicit schedule (choice list over lock-acquisition points, uniform or sticky); "
                 "non-trivial = a GetNext blocked on the condition variable and later returned, or blocked while an existing batch was deleted, "
                 "or (sequential) >2 GetNext results and >2 deletions of existing batches; distinct = distinct event-trace digest "
                 "(operations and every scheduling decision among >=2 runnable tasks)"),
        "probes": ["getnext_blocked", "getnext_returned_after_wait", "deletes_tail", "deletes_nonexisting", "cancels", "getnext_cancelled"],
        "components": {"real": ["internal/outputstream (outputstream.go, serialization.go)", "goleveldb"],
                       "stubbed": ["package sync as used by outputstream.go -> simsync (scheduler-owned locks and condition variable)"]},
        "claim": ("Seeded search over bounded concurrent programs and explicit lock-level schedules of the real OutputStream (Add/Delete/GetNext/Get/InterruptGetNext) "
                  "against a sorted-map model with a version timeline: wrong batch, wrong contents, panic, reader stuck although a successor exists or after cancel+interrupt are all detected; "
                  "every failure is shrunk and replays exactly. Sampling (10^4 quick, 10^6 thorough), not the systematic enumeration the property text mentions."),
        "note": "trusts simsync (the sync drop-in) to admit only interleavings the real sync package admits; goleveldb runs real; programs are bounded (<=5 tasks, <=~10 concurrent ops).",
        "technique": "deterministic simulation: cooperative scheduler over lock-acquisition points, seeded schedules, reference-model oracle",
        "design_ref": "DESIGN.md §4 C08, §3.3",
        "assumptions": ["simsync faithfully implements sync.RWMutex/Cond semantics (no spurious wake-ups, FIFO Signal)",
                        "sampling of interleavings, not enumeration"],
    },
})

# cluster-engine halves of properties that also have a state-machine half in E1 (run by the same check, see bin/check)
E2_EXTRA = {
    "C10": {"runs": {"quick": 400, "thorough": 40000}},
    "C11": {"runs": {"quick": 400, "thorough": 40000}},
    "C15": {"runs": {"quick": 400, "thorough": 40000}},
    "C16": {"runs": {"quick": 400, "thorough": 40000}},
    "C17": {"runs": {"quick": 400, "thorough": 40000}},
}

NOT_APPLICABLE = {
    "C18": ("pure function of its input (encode/decode round trips): no schedule, clock, fault or second party for a simulator to own; "
            "deterministic simulation with fault injection does not apply (DESIGN.md §5). Readers/codecs are exercised as a by-product of C02/C09 runs only."),
}


def _add_e2_part(prop, quick, thorough, rule_add, claim_add, probes_add):
    c = CHECKS[prop]
    c["parts"] = [
        {"engine": c["engine"], "runs": c["runs"], "worker_timeout": c.get("worker_timeout", {})},
        {"engine": "e2", "runs": {"quick": quick, "thorough": thorough}, "worker_timeout": {"quick": 600, "thorough": 3600}},
    ]
    c["rule"] += " || cluster part (E2): " + rule_add
    c["claim"] += " Cluster part (E2, real raft + real HTTP handlers): " + claim_add
    c["probes"] = c["probes"] + probes_add
    c["components"] = {"real": c["components"]["real"] + ["E2: internal/api handlers, hashicorp/raft, rafthttp, leader proxying"],
                       "stubbed": c["components"]["stubbed"] + ["E2: main() wiring, TLS/TCP (simulated wire), bridge (simulated clients)"]}
    c["note"] = c["note"].replace("The handler half (no second log entry for a retried POST) is decided by the cluster engine once registered.", "").replace("The revision check of the HTTP handler (accept only the revision in force, +1 per accepted update) is decided by the cluster engine once registered.", "")


_add_e2_part("C10", 600, 60000,
    "C05's cluster scenarios plus a retrier: after an acknowledged POST (PRIVMSG or PING) the client repeats it 1-3 times with the same client message id on the same or another node once that node has applied the original; non-trivial = >=2 repeated posts",
    "every repeated POST is answered 200; the leader's raft log holds at most one entry per (session, client message id); a repeated PRIVMSG is delivered once, a repeated PING answered once - also across kills, restarts, fail-over and forced snapshots.",
    ["duplicate_posts_sent", "duplicate_posts_to_other_node", "retried_ids_checked", "retried_pings_checked"])
_add_e2_part("C15", 400, 40000,
    "cluster scenarios in which clients POST hostile bodies (CR, NUL, 600-byte and multi-byte text, CTCP) through the real POST handler; non-trivial = >=3 hostile posts and >=10 delivered lines checked",
    "every line any client can fetch from any node (GET messages JSON) is one well-formed IRC line; this half decides that the real POST handler sanitises what E1 assumes it does.",
    ["hostile_posts"])
_add_e2_part("C16", 400, 40000,
    "cluster scenarios plus an administrator who, one request after another, reads GET /config from any node and POSTs a configuration to any node: valid with the revision in force, stale, future, unparsable, without revision header; non-trivial = >=1 accepted update and >=1 cross-node comparison",
    "only parsable updates naming the revision in force are accepted; an accepted update raises the revision by exactly one; after convergence GET /config (body and revision header) is identical on all nodes.",
    ["config_posts_valid", "config_posts_stale", "config_posts_future", "config_posts_invalid-toml", "configs_compared", "configs_accepted"])
_add_e2_part("C17", 400, 40000,
    "cluster scenarios (sessions never end in them): every client request carries the right secret, readers connect to followers that may not have applied the session yet (slow-node and partition faults widen the lag); non-trivial = >=2 GetMessages connections on a 3-node network",
    "no node ever answers 404 ('session gone') for a live session; lagging nodes answer 500/proxy instead.",
    ["lagging_node_said_not_yet_seen", "slow_nodes"])

CHECKS["C20"] = {
    "engine": "e2race",
    "runs": {"quick": 96, "thorough": 6000},
    "level": "exploration",
    "rule": ("scenario = cluster scenario (1 or 3 nodes, clients, faults incl. forced snapshots and follower restarts with TrailingLogs 0 so that raft-initiated Restore happens) plus a stress actor that every 0.1-1s of virtual time starts a group of 4-7 operations in the same instant: "
             ">=2 POSTs for the same session, GetMessages, status/sessions/state/getmessage/irclog pages, config read, forced snapshot; the expiry sweep runs every 10s on the leader; one OS process per scenario, built with -race, GOMAXPROCS=4; "
             "non-trivial = >=3 groups executed; distinct = event-trace digest"),
    "probes": ["stress_groups", "stress_ops", "forced_snapshots", "fsm_restores", "expiry_sweeps_on_leader"],
    "components": CHECKS["C05"]["components"],
    "claim": ("Go's race detector observes every execution of the simulated cluster under seeded concurrent operation groups; each report whose conflicting access lies in robustirc code is a violation identified by the pair of functions. "
              "Detection is happens-before based, so a racy pair is reported whenever both accesses occur unordered in a run, not only when they collide in time."),
    "note": "dynamic detector: finds races only on paths the groups execute; the schedule inside a group is the Go scheduler's (P=4), not seeded; groups, victims, routes and fault placement are.",
    "technique": "deterministic simulation as the driver of seeded concurrent operation groups; oracle = Go race detector (happens-before)",
    "assumptions": ["virtual sleeps between groups do not add happens-before edges (measured in the design phase)"],
    "worker_timeout": {"quick": 600, "thorough": 1800},
}

CHECKS["C11"] = {
    "engine": "e2",
    "runs": {"quick": 600, "thorough": 60000},
    "level": "exploration",
    "rule": ("cluster scenarios (C05's) plus an attacker who, at seeded moments of the live history, issues POST message / GET messages / DELETE session for a victim session with credential variants "
             "(none, empty, wrong, another live session's secret, a prefix of the right secret, the right secret plus trailing bytes, upper-cased) on any node, and private routes (status pages, irclog, config, kill, join, part, raft transport, unknown paths) "
             "with no / wrong / empty password or wrong user, singly and in bursts of 14 rapid attempts; non-trivial = >=3 session-route attacks; distinct = event-trace digest"),
    "probes": ["attacks_post", "attacks_get", "attacks_delete", "attacks_private", "attacks_private_in_burst"],
    "components": CHECKS["C05"]["components"],
    "claim": ("Every request without exactly the victim's secret is refused (status >= 400), reveals no message, and has no effect: its text never reaches any stream on any node and the victim session still exists at the end; "
              "every private route answers 401 without the network password, also under rapid repeated failures; legitimate clients with the right secret keep working throughout (C05 oracle in the same runs)."),
    "note": "route list is fixed in the harness (taken from DispatchPrivateWithoutAuth/DispatchPublic at the time of writing); a route added later is not probed until listed. Credential matrix is enumeration; the simulator contributes session states, lag and fail-over.",
    "technique": "deterministic simulation: attacker actor inside the simulated cluster, refusal + no-effect oracle over the recorded history",
    "assumptions": ["virtual clock = testing/synctest bubble"],
    "worker_timeout": {"quick": 600, "thorough": 3600},
}
