// Package verifrt is the runtime half of the "mapseam" (see /verif/tools/rewrite): it yields the keys
// of a map in an order the simulator owns. The order is a pure function of (mode, seed, call counter,
// key set), so a run is exactly repeatable, and different replicas can be given maximally different
// orders (ascending / descending / seeded permutations).
package verifrt

import (
	"fmt"
	"sort"
)

// Order describes how the current replica iterates maps.
type Order struct {
	Mode    int // 0 ascending, 1 descending, 2 seeded permutation per call
	Seed    uint64
	counter uint64
	// Calls counts Keys calls on maps with >= 2 entries (coverage probe).
	Calls uint64
}

var cur = &Order{}

// Use installs the order of the replica that is about to run.
func Use(o *Order) {
	if o == nil {
		o = &Order{}
	}
	cur = o
}

func splitmix64(x uint64) uint64 {
	x += 0x9e3779b97f4a7c15
	x = (x ^ (x >> 30)) * 0xbf58476d1ce4e5b9
	x = (x ^ (x >> 27)) * 0x94d049bb133111eb
	return x ^ (x >> 31)
}

// Keys returns the keys of m in the current replica's order.
func Keys[M ~map[K]V, K comparable, V any](m M) []K {
	keys := make([]K, 0, len(m))
	for k := range m {
		keys = append(keys, k)
	}
	if len(keys) < 2 {
		return keys
	}
	o := cur
	o.Calls++
	// canonical order first (independent of the runtime's iteration order)
	strs := make([]string, len(keys))
	for i, k := range keys {
		strs[i] = fmt.Sprintf("%v", k)
	}
	idx := make([]int, len(keys))
	for i := range idx {
		idx[i] = i
	}
	sort.SliceStable(idx, func(a, b int) bool { return strs[idx[a]] < strs[idx[b]] })
	out := make([]K, len(keys))
	for i, j := range idx {
		out[i] = keys[j]
	}
	switch o.Mode {
	case 1:
		for i, j := 0, len(out)-1; i < j; i, j = i+1, j-1 {
			out[i], out[j] = out[j], out[i]
		}
	case 2:
		o.counter++
		s := splitmix64(o.Seed ^ o.counter*0x9e3779b97f4a7c15)
		for i := len(out) - 1; i > 0; i-- {
			s = splitmix64(s)
			j := int(s % uint64(i+1))
			out[i], out[j] = out[j], out[i]
		}
	}
	return out
}
