package main

// Engine E1, part 3: executor and replica / snapshot / serialization oracles
// (C01, C02, C03, C06, C10-state-machine half, C16-state-machine half, C17-lag).

import (
	"encoding/json"
	"fmt"
	"os"
	"path/filepath"
	"regexp"
	"runtime/debug"
	"strings"
	"testing"
	"testing/synctest"
	"time"

	"github.com/hashicorp/raft"
	"github.com/robustirc/robustirc/internal/config"
	"github.com/robustirc/robustirc/internal/ircserver"
	"github.com/robustirc/robustirc/internal/robust"
	"github.com/robustirc/robustirc/internal/verifsim/core"
	"github.com/robustirc/robustirc/internal/verifsim/verifrt"
	"gopkg.in/sorcix/irc.v2"
)

const prodMessageOffset = 4648398125000000000

// dumpDiffSigs returns the distinct field paths (map keys stripped) on which two dumps differ, in order.
func dumpDiffSigs(a, b string) []string {
	count := map[string]int{}
	for _, l := range strings.Split(a, "\n") {
		count[l]++
	}
	for _, l := range strings.Split(b, "\n") {
		count[l]--
	}
	seen := map[string]bool{}
	var out []string
	add := func(l string) {
		if eq := strings.Index(l, "="); eq > 0 {
			l = l[:eq]
		}
		l = keyRe.ReplaceAllString(l, "[]")
		if !seen[l] {
			seen[l] = true
			out = append(out, l)
		}
	}
	for _, l := range strings.Split(a, "\n") {
		if count[l] > 0 {
			add(l)
		}
	}
	for _, l := range strings.Split(b, "\n") {
		if count[l] < 0 {
			add(l)
		}
	}
	return out
}

var e1NewFieldDiffs int

// knownPaths: state paths listed as known findings (VERIF_KNOWN_PATHS, set by the runner from
// /verif/known_findings.json). A difference confined to such paths is still reported (as the known
// finding), but the run goes on so that everything else keeps being checked.
func knownPaths() []string {
	var out []string
	for _, p := range strings.Split(os.Getenv("VERIF_KNOWN_PATHS"), ",") {
		if p != "" {
			out = append(out, p)
		}
	}
	return out
}

// stateDiff compares two dumps. It returns the signature path of the first difference that is not a
// known finding ("" if none) and the first known path that differed ("" if none).
func stateDiff(a, b string) (unknown, known string) {
	if a == b {
		return "", ""
	}
	kp := knownPaths()
	for _, sig := range dumpDiffSigs(a, b) {
		if !e1FrozenPaths[sig] {
			// a field the code gained after this harness was written: whether it is replicated state or
			// node-local bookkeeping (a cache, a counter) cannot be told from its value. It is not judged by
			// reflection; a difference that matters shows in the outputs compared for every later entry.
			e1NewFieldDiffs++
			continue
		}
		tol := false
		for _, p := range kp {
			if strings.HasPrefix(sig, p) {
				tol = true
			}
		}
		if tol {
			if known == "" {
				known = sig
				for _, p := range kp {
					if strings.HasPrefix(sig, p) {
						known = p
					}
				}
			}
		} else if unknown == "" {
			unknown = sig
		}
	}
	return
}

var panicFrameRe = regexp.MustCompile(`ircserver\.\(\*IRCServer\)\.(\w+)`)
var panicFrameRe2 = regexp.MustCompile(`robustirc/internal/(\w+)\.(\(\*?\w+\)\.)?(\w+)`)

func panicSite(stack string) string {
	// first frame inside robustirc code below the runtime panic frames
	idx := strings.Index(stack, "panic(")
	s := stack
	if idx >= 0 {
		s = stack[idx:]
	}
	if m := panicFrameRe.FindStringSubmatch(s); m != nil {
		return m[1]
	}
	if m := panicFrameRe2.FindStringSubmatch(s); m != nil {
		return m[1] + "." + m[3]
	}
	return "?"
}

// ---------------------------------------------------------------------------

type e1Run struct {
	sc      *e1Scenario
	res     *core.Result
	tr      *core.Trace
	root    string
	nodes   []*e1Node
	log     []*logEntry // reference (single-copy) log, index = position+1
	entryAt map[uint64]*logEntry
	// canonical per-index outputs (from the first node that applied the index)
	canon     map[uint64][]outMsg
	canonRet  map[uint64]string
	canonNode map[uint64]int
	sessions  []uint64 // created session ids in creation order
	cmid      map[uint64]uint64
	step      int
	prop      string
	model     *obsModel
	shadow    map[int]*obsModel // per faulted replica (e1ShadowProps)
	ctx       string
	// expected configuration in force (C16): tracked from accepted Config entries
	cfgRev                            uint64
	stopped                           bool
	offset                            uint64
	toleratedOwn                      int
	prevLineSession, prevOtherSession uint64
}

// e1ShadowProps: checks whose per-entry validators also run on the faulted replicas.
var e1ShadowProps = map[string]bool{"C12": true, "C13": true, "C14": true, "C15": true, "C17": true}

func (r *e1Run) violate(prop, class, sig, detail string) {
	r.res.Violate(prop, class, sig, fmt.Sprintf("step %d: %s%s", r.step, r.ctx, detail), r.step)
}

// tolerate records a violation that is a listed known finding without ending the run.
func (r *e1Run) tolerate(prop, class, sig, detail string) {
	before := len(r.res.Violations)
	r.res.Violate(prop, class, sig, fmt.Sprintf("step %d: %s", r.step, detail), r.step)
	if len(r.res.Violations) > before && (prop == r.prop || r.prop == "") {
		r.toleratedOwn++
	}
}

// fatal: the run ends at the first violation of the property under check that is not a listed known
// finding. Violations of other properties are recorded but do not end the run (their own checks report
// them), so that each check explores independently of the others.
func (r *e1Run) fatal() bool {
	n := 0
	for _, v := range r.res.Violations {
		if v.Property == r.prop || r.prop == "" {
			n++
		}
	}
	return n > r.toleratedOwn
}

func (r *e1Run) now() time.Time { return time.Now() }

func (r *e1Run) appendEntry(typ raft.LogType, msg *robust.Message) *logEntry {
	idx := uint64(len(r.log) + 1)
	e := &logEntry{Index: idx, Type: typ}
	if msg != nil {
		msg.UnixNano = r.now().UnixNano()
		*useProtobuf = r.nodes[0].proto // the leader's API encodes the message
		e.Data = encodeMsg(msg)
		// what the oracles know about the entry is what was proposed (not what the code under test decodes
		// from the stored bytes): the id defaults to the entry's position
		m := *msg
		if m.Id.Id == 0 {
			m.Id.Id = robust.IdFromRaftIndex(idx)
		}
		if dm := robust.NewMessageFromBytes(e.Data, robust.IdFromRaftIndex(idx)); dm.Id != m.Id || dm.Session != m.Session || dm.Type != m.Type || dm.Data != m.Data || dm.ClientMessageId != m.ClientMessageId || dm.Revision != m.Revision || dm.RemoteAddr != m.RemoteAddr || dm.UnixNano != m.UnixNano {
			dprop := "C01"
			switch {
			case dm.ClientMessageId != m.ClientMessageId:
				dprop = "C10"
			case dm.Revision != m.Revision:
				dprop = "C16"
			}
			r.violate(dprop, "entry-decoded-differently", "entry-decoded-differently", fmt.Sprintf("index %d: the stored entry decodes to %+v, proposed was %+v (a replica applying it acts on something else than what was committed)", idx, dm, m))
		}
		e.Msg = &m
		e.TS = m.Timestamp()
	}
	r.log = append(r.log, e)
	r.entryAt[idx] = e
	// node 0 (never faulted, never lagging) applies at once; the others when scheduled
	r.applyOn(r.nodes[0], 1)
	return e
}

// applyOn lets node n apply up to cnt further committed entries.
func (r *e1Run) applyOn(n *e1Node, cnt int) {
	if n.dead {
		return
	}
	for k := 0; k < cnt && n.applied < uint64(len(r.log)); k++ {
		e := r.log[n.applied]
		if err := n.store(e); err != nil {
			r.res.Inconclusive = "harness: store: " + err.Error()
			return
		}
		before := (*ircserver.VerifPrivState)(nil)
		if (n.idx == 0 || e1ShadowProps[r.prop]) && e.Msg != nil {
			before = ircserver.VerifPriv(n.irc)
		}
		if e.Msg != nil && r.canonRet[e.Index] == "" {
			// marker for the runner: FSM.Apply turns a panic into process exit (message of death path)
			os.Stdout.WriteString("@@APPLYING " + cmdOf(e) + " role=" + r.roleOf(n, e) + "\n")
		}
		o := n.applyEntry(e)
		r.res.Add("entries_applied", 1)
		if o.panicked != nil {
			site := panicSite(o.stack)
			line := ""
			if e.Msg != nil {
				line = fmt.Sprintf("type=%s data=%q", e.Msg.Type, trunc(e.Msg.Data, 200))
			}
			r.violate("C06", "apply-panic", "panic:"+site, fmt.Sprintf("node %d: applying index %d (%s) panicked: %v\n%s", n.idx, e.Index, line, o.panicked, firstLinesOf(o.stack, 24)))
			r.stopped = true
			return
		}
		r.afterApply(n, e, o, before)
		if r.stopped {
			return
		}
	}
}

// servicesLineInScope keeps the services workload inside what the properties quantify over: nicknames a
// link introduces are syntactically valid, and SVSNICK moves a user onto a free nickname (or changes only
// the case of its own).
func (r *e1Run) servicesLineInScope(line string) bool {
	pm := irc.ParseMessage(line)
	if pm == nil {
		return true
	}
	p := ircserver.VerifPriv(r.nodes[0].irc)
	switch strings.ToUpper(pm.Command) {
	case "NICK":
		if len(pm.Params) > 1 && !ircserver.IsValidNickname(pm.Params[0]) {
			return false
		}
	case "SVSNICK":
		if len(pm.Params) < 2 {
			return true
		}
		owner := sessByNick(p, pm.Params[1])
		if owner == nil {
			return true
		}
		cur := sessByNick(p, pm.Params[0])
		return cur != nil && cur.Id == owner.Id && cur.Reply == owner.Reply
	}
	return true
}

func (r *e1Run) roleOf(n *e1Node, e *logEntry) string {
	if e.Msg == nil || (e.Msg.Type != robust.IRCFromClient && e.Msg.Type != robust.DeleteSession) {
		return "-"
	}
	p := ircserver.VerifPriv(n.irc).Sess[[2]uint64{e.Msg.Session.Id, 0}]
	switch {
	case p == nil:
		return "nosession"
	case p.Server:
		return "services"
	case p.Oper:
		return "oper"
	case p.LoggedIn:
		return "registered"
	}
	return "unregistered"
}

func (r *e1Run) outputsOf(n *e1Node, e *logEntry) ([]outMsg, bool) {
	if e.Msg == nil {
		return nil, false
	}
	id := e.Msg.Id
	if e.Msg.Type == robust.IRCFromClient {
		// output batches are keyed by the id of the input message
		id = robust.Id{Id: robust.IdFromRaftIndex(e.Index)}
		if e.Msg.Id.Id != 0 {
			id = e.Msg.Id
		}
	}
	ms, ok := n.out.Get(robust.Id{Id: id.Id})
	if !ok {
		return nil, false
	}
	return renderOut(ms), true
}

func (r *e1Run) afterApply(n *e1Node, e *logEntry, o applyOutcome, before *ircserver.VerifPrivState) {
	if e.Msg == nil {
		return
	}
	if n.idx != 0 {
		// C14 also holds on replicas that lag, restarted, restored or went through save+load
		for _, bad := range ircserver.VerifInvariants(n.irc) {
			kind := bad
			if i := strings.Index(bad, ":"); i > 0 {
				kind = bad[:i]
			}
			r.violate("C14", "invariant", "invariant:"+kind+":"+cmdOf(e), fmt.Sprintf("node %d (restored=%v, cycled=%v) after index %d (%s): %s", n.idx, n.restored, n.cycled, e.Index, descr(e), bad))
		}
		r.res.Add("invariant_walks_on_faulted_replicas", 1)
	}
	outs, _ := r.outputsOf(n, e)
	ret := fmt.Sprint(o.ret)
	if _, seen := r.canonRet[e.Index]; seen {
		c := r.canon[e.Index]
		// C01: same ids, bytes, order, recipient sets; same Apply result
		if a, b := outString(c), outString(outs); a != b {
			r.violate(r.blame(n), "replica-output-diverged", "output:"+cmdOf(e), fmt.Sprintf("index %d (%s) produced different output on node %d than on node %d:\n%s", e.Index, descr(e), n.idx, r.canonNode[e.Index], firstDiff(a, b)))
		}
		if r.canonRet[e.Index] != ret {
			r.violate(r.blame(n), "replica-result-diverged", "result:"+cmdOf(e), fmt.Sprintf("index %d: Apply returned %q on node %d but %q on node %d", e.Index, ret, n.idx, r.canonRet[e.Index], r.canonNode[e.Index]))
		}
		if len(outs) > 0 {
			r.res.Add("outputs_compared", 1)
		}
		// the per-entry validators also judge what a lagging, restarted, restored or re-loaded replica does
		// with the entry (its own state before, its own outputs, its own state after)
		if n.idx != 0 && before != nil && e1ShadowProps[r.prop] {
			if r.shadow == nil {
				r.shadow = map[int]*obsModel{}
			}
			if r.shadow[n.idx] == nil {
				r.shadow[n.idx] = newObsModel(r)
			}
			r.ctx = fmt.Sprintf("[judged on node %d: restored=%v, cycled=%v, snapshots=%d, incarnation=%d] ", n.idx, n.restored, n.cycled, n.snapCount, n.inc)
			r.shadow[n.idx].observe(n, e, outs, before)
			r.ctx = ""
			r.res.Add("entries_judged_on_faulted_replicas", 1)
		}
		return
	}
	_ = 0
	r.canon[e.Index] = outs
	r.canonRet[e.Index] = ret
	r.canonNode[e.Index] = n.idx
	if n.idx == 0 {
		r.model.observe(n, e, outs, before)
	}
}

// blame: plain replicas disagreeing is C01; a node that went through snapshot/restore is judged under
// C02, one that only went through save+load under C03.
func (r *e1Run) blame(n *e1Node) string {
	switch {
	case n.snapCount > 0 || n.restored:
		return "C02"
	case n.cycled:
		return "C03"
	}
	return "C01"
}

func cmdOf(e *logEntry) string {
	if e.Msg == nil {
		return "raft"
	}
	if e.Msg.Type != robust.IRCFromClient {
		return e.Msg.Type.String()
	}
	f := strings.Fields(strings.TrimLeft(e.Msg.Data, " "))
	for _, w := range f {
		if strings.HasPrefix(w, ":") || strings.HasPrefix(w, "@") {
			continue
		}
		return strings.ToUpper(trunc(w, 12))
	}
	return "?"
}

// compareStates checks replica agreement of full state at equal applied index (C01/C02/C03).
func (r *e1Run) compareStates(why string, prop string) {
	ref := r.nodes[0]
	refDump := ""
	for _, n := range r.nodes[1:] {
		if n.dead || n.applied != ref.applied {
			continue
		}
		if refDump == "" {
			refDump = ircserver.VerifDump(ref.irc)
		}
		d := ircserver.VerifDump(n.irc)
		r.res.Add("state_comparisons", 1)
		if unk, kn := stateDiff(refDump, d); unk != "" || kn != "" {
			p := prop
			if p == "" {
				// plain replicas disagreeing is C01; a node that went through snapshot/restore is C02,
				// one that only went through save+load is C03
				p = r.blame(n)
			}
			// the duplicate-detection marker (C10) and the configuration (C16) have to agree on every replica
			for _, path := range dumpDiffSigs(refDump, d) {
				known := false
				for _, kp := range knownPaths() {
					if strings.HasPrefix(path, kp) {
						known = true
						path = kp
					}
				}
				switch {
				case strings.HasSuffix(path, ".lastClientMessageId"):
					r.violate("C10", "marker-diverged", "marker-diverged", fmt.Sprintf("%s: the duplicate-detection marker differs between node %d (restored=%v) and the never-snapshotted node at index %d:\n%s", why, n.idx, n.restored, n.applied, firstDiff(refDump, d)))
				case strings.HasPrefix(path, "IRCServer.Config") && known:
					r.tolerate("C16", "config-diverged", "config-diverged:"+path, fmt.Sprintf("%s: configuration differs on node %d in %s", why, n.idx, path))
				case strings.HasPrefix(path, "IRCServer.Config"):
					r.violate("C16", "config-diverged", "config-diverged:"+path, fmt.Sprintf("%s: the configuration in force differs between node %d (restored=%v, cycled=%v) and the never-snapshotted node at index %d:\n%s", why, n.idx, n.restored, n.cycled, n.applied, firstDiff(refDump, d)))
				}
			}
			if unk == "" {
				r.tolerate(p, "replica-state-diverged", "state:"+kn, fmt.Sprintf("%s: node %d differs from the never-snapshotted node at index %d in %s", why, n.idx, n.applied, kn))
				continue
			}
			r.violate(p, "replica-state-diverged", "state:"+unk, fmt.Sprintf("%s: node %d (snapshots=%d, incarnation=%d) differs from the never-snapshotted node at index %d in %v:\n%s", why, n.idx, n.snapCount, n.inc, n.applied, dumpDiffSigs(refDump, d), firstDiff(refDump, d)))
		}
	}
}

// checkRetained: C02 - for every id still retained on n (in its irclog), the output equals the twin's;
// ids folded by n's snapshots have no output left on n.
func (r *e1Run) checkRetained(n *e1Node, why string) {
	ref := r.nodes[0]
	have := map[uint64]bool{}
	for _, idx := range n.irclogIndexes() {
		have[idx] = true
	}
	for _, e := range r.log {
		if e.Msg == nil || e.Index > n.applied {
			continue
		}
		got, okN := r.outputsOf(n, e)
		want, okR := r.outputsOf(ref, e)
		if have[e.Index] {
			if okR && (!okN || outString(got) != outString(want)) {
				r.violate("C02", "retained-output-lost", "retained-output:"+cmdOf(e), fmt.Sprintf("%s: node %d retains index %d (%s) in its log copy but serves different output than the never-snapshotted node:\n%s", why, n.idx, e.Index, descr(e), firstDiff(outString(want), outString(got))))
				return
			}
			r.res.Add("retained_outputs_compared", 1)
		} else if e.Index <= n.foldedUpTo {
			if okN && len(got) > 0 {
				r.violate("C02", "folded-output-retained", "folded-output-retained", fmt.Sprintf("%s: node %d folded index %d into its snapshot state but still serves its output", why, n.idx, e.Index))
				return
			}
		}
	}
}

func (r *e1Run) sessionFor(ord int) uint64 {
	if len(r.sessions) == 0 {
		return 0
	}
	if ord < 0 {
		ord = -ord
	}
	return r.sessions[ord%len(r.sessions)]
}

func (e1Engine) Execute(raw json.RawMessage, prop string) (*core.Result, error) {
	var sc e1Scenario
	if err := json.Unmarshal(raw, &sc); err != nil {
		return nil, err
	}
	res := &core.Result{}
	var execErr error
	t := e1T
	defer func() {
		// the bubble panics when goroutines of the databases are still blocked at its end
		if rec := recover(); rec != nil {
			if s, ok := rec.(string); ok && strings.Contains(s, "deadlock") {
				return
			}
			execErr = fmt.Errorf("bubble panic: %v", rec)
		}
	}()
	func() {
		defer func() {
			if rec := recover(); rec != nil {
				s := fmt.Sprint(rec)
				if strings.Contains(s, "deadlock: main bubble goroutine has exited but blocked goroutines remain") {
					return
				}
				panic(rec)
			}
		}()
		synctest.Test(t, func(t *testing.T) {
			execErr = e1Execute(&sc, prop, res)
		})
	}()
	return res, execErr
}

var e1T *testing.T

func e1Execute(sc *e1Scenario, prop string, res *core.Result) error {
	e1InitFlags()
	root, err := os.MkdirTemp("", "e1-")
	if err != nil {
		return err
	}
	defer os.RemoveAll(root)
	flag_useProtobuf := !sc.JSONEnc
	*useProtobuf = flag_useProtobuf
	robust.MessageOffset = 0
	if sc.Offset {
		robust.MessageOffset = prodMessageOffset
	}
	defer func() { robust.MessageOffset = 0; *useProtobuf = true; *canaryCompactionStart = 0 }()

	r := &e1Run{sc: sc, res: res, tr: &core.Trace{Keep: os.Getenv("VERIF_TRACE") != ""}, root: root, entryAt: map[uint64]*logEntry{}, canon: map[uint64][]outMsg{}, canonRet: map[uint64]string{}, canonNode: map[uint64]int{}, cmid: map[uint64]uint64{}, prop: prop, offset: robust.MessageOffset}
	r.model = newObsModel(r)
	nn := sc.Nodes
	if nn < 2 {
		nn = 2
	}
	if nn > 5 {
		nn = 5
	}
	for k := 0; k < nn; k++ {
		// replica k iterates maps ascending (0), descending (1) or in seeded permutations (2+)
		mode := k
		if mode > 2 {
			mode = 2
		}
		n := &e1Node{idx: k, dir: filepath.Join(root, fmt.Sprintf("n%d", k)), order: &verifrt.Order{Mode: mode, Seed: core.Mix(sc.Seed, uint64(k))}, proto: !sc.JSONEnc, protoSet: true}
		if err := n.start(); err != nil {
			return err
		}
		r.nodes = append(r.nodes, n)
		// different creation times on purpose (only numeric 003 may show it)
		time.Sleep(time.Duration(k+1) * 1234 * time.Millisecond)
	}
	defer func() {
		for _, n := range r.nodes {
			n.stop()
		}
		// let goleveldb's goroutines drain before the bubble ends
		time.Sleep(2 * time.Second)
	}()
	t0 := time.Now()

	for si, st := range sc.Steps {
		if r.stopped || r.fatal() || res.Inconclusive != "" {
			break
		}
		r.step = si
		r.safeStep(st)
	}
	if !r.stopped && !r.fatal() && res.Inconclusive == "" {
		r.step = len(sc.Steps)
		// epilogue: everybody catches up; final agreement; probes
		for _, n := range r.nodes {
			r.applyOn(n, len(r.log))
		}
		if !r.stopped {
			r.compareStates("end of run", "")
			for _, n := range r.nodes[1:] {
				if !n.dead && n.snapCount > 0 {
					r.checkRetained(n, "end of run")
				}
			}
			r.model.finalChecks()
		}
	}
	for _, n := range r.nodes {
		res.Add("seeded_map_iterations_ge2", int64(n.order.Calls))
	}
	if os.Getenv("VERIF_MAPSEAM") == "1" {
		res.Add("mapseam_runs", 1)
	}
	if e1NewFieldDiffs > 0 {
		res.Add("state_differences_in_fields_unknown_to_the_harness", int64(e1NewFieldDiffs))
		e1NewFieldDiffs = 0
	}
	if os.Getenv("VERIF_TRACE") != "" {
		for _, l := range r.tr.Lines {
			fmt.Fprintln(os.Stderr, "TRACE", l)
		}
	}
	res.SimMillis = time.Since(t0).Milliseconds()
	res.Steps = len(sc.Steps)
	res.Fingerprint = r.tr.Digest()
	res.Nontrivial = r.nontrivial()
	return nil
}

func (r *e1Run) nontrivial() bool {
	s := r.res.Stats
	switch r.prop {
	case "C02":
		return s["snapshots_persisted"] >= 2 && s["restores"] >= 1 || s["snapshots_folded_all"] >= 1 && s["restores"] >= 1 || (s["persist_failures"] >= 1 && s["snapshots_persisted"] >= 1)
	case "C03":
		return s["cycles"]+s["restores"] >= 1 && s["entries_after_cycle"] >= 20
	case "C06":
		return s["lines_applied"] >= 20
	case "C12":
		return s["relayed_checked_multi"] >= 1 && s["membership_events"] >= 2
	case "C13":
		return s["privileged_transitions_checked"] >= 3
	case "C14":
		return s["invariant_walks"] >= 20 && s["membership_events"] >= 3
	case "C15":
		return s["lines_checked"] >= 20
	case "C17":
		return s["lag_probes"] >= 5 || s["expire_sweeps"] >= 1
	case "C16":
		return s["configs_applied"] >= 2
	case "C10":
		return s["dup_markers_compared"] >= 1
	default: // C01
		return s["outputs_compared"] >= 10 && s["multi_recipient_outputs"] >= 1
	}
}

// safeStep: FSM.Apply panics are handled where entries are applied (C06). A panic anywhere else in the
// code under test (Snapshot, Persist, Restore, the stores) would end the real process in the same way;
// it is reported instead of taking the worker down. A panic raised by harness code is re-raised.
func (r *e1Run) safeStep(st e1Step) {
	defer func() {
		p := recover()
		if p == nil {
			return
		}
		stack := string(debug.Stack())
		site, production := firstRepoFrame(stack)
		if !production {
			panic(p)
		}
		prop := "C02"
		if st.K == "cycle" {
			prop = "C03"
		}
		r.violate(prop, "panic-outside-apply", "panic-outside-apply:"+site, fmt.Sprintf("step %q: the code under test panicked outside FSM.Apply (the node process would die): %v\n%s", st.K, p, firstLinesOf(stack, 40)))
		r.stopped = true
	}()
	r.execStep(st)
}

// firstRepoFrame finds, below the runtime's panic frame, the first frame that belongs to the repository
// and says whether it is production code (true) or a harness file mapped in by overlay (false).
func firstRepoFrame(stack string) (string, bool) {
	i := strings.Index(stack, "\npanic(")
	if i < 0 {
		return "?", false
	}
	lines := strings.Split(stack[i+1:], "\n")
	for k := 0; k+1 < len(lines); k += 2 {
		fn, file := lines[k], strings.TrimSpace(lines[k+1])
		if !strings.HasPrefix(fn, "github.com/robustirc/robustirc") {
			continue
		}
		if strings.Contains(file, "zz_verif_") || strings.Contains(fn, "verifsim") || strings.Contains(fn, ".Verif") {
			return "", false
		}
		name := fn
		if j := strings.LastIndex(name, "("); j > 0 {
			name = name[:j]
		}
		name = strings.TrimPrefix(name, "github.com/robustirc/robustirc/internal/")
		name = strings.TrimPrefix(name, "github.com/robustirc/")
		return name, true
	}
	return "?", false
}

func (r *e1Run) execStep(st e1Step) {
	switch st.K {
	case "create":
		e := r.appendEntry(raft.LogCommand, &robust.Message{Type: robust.CreateSession, Data: fmt.Sprintf("auth%04d-%s", len(r.sessions), strings.Repeat("x", 16))})
		// the session exists only if creation succeeded; lines to a refused session are still legal log entries
		r.sessions = append(r.sessions, e.Msg.Id.Id)
		r.tr.Log("create %d", e.Index)
	case "line":
		sid := r.sessionFor(st.S)
		if sid == 0 {
			return
		}
		isLink := false
		if ps := ircserver.VerifPriv(r.nodes[0].irc).Sess[[2]uint64{sid, 0}]; ps != nil {
			isLink = ps.Server
		}
		if isLink != st.Svc {
			r.res.Add("lines_skipped_role_mismatch", 1)
			return
		}
		if st.Svc && !r.servicesLineInScope(st.Data) {
			r.res.Add("lines_skipped_out_of_scope", 1)
			return
		}
		data := st.Data
		if strings.Contains(data, "{nick") {
			// current nicknames: {nicka} = the acting session, {nickb} = the session of the previous line step
			pv := ircserver.VerifPriv(r.nodes[0].irc)
			nickOf := func(id uint64) string {
				if ps := pv.Sess[[2]uint64{id, 0}]; ps != nil && ps.Nick != "" {
					return ps.Nick
				}
				return "nobody"
			}
			other := r.prevLineSession
			if other == sid || other == 0 {
				other = r.prevOtherSession
			}
			data = strings.ReplaceAll(data, "{nicka}", nickOf(sid))
			data = strings.ReplaceAll(data, "{nickb}", nickOf(other))
		}
		if strings.Contains(data, "{sid") {
			other := r.prevLineSession
			if other == sid || other == 0 {
				other = r.prevOtherSession
			}
			data = strings.ReplaceAll(data, "{sida}", fmt.Sprintf("%x", sid))
			data = strings.ReplaceAll(data, "{sidb}", fmt.Sprintf("%x", other))
			r.res.Add("ban_masks_naming_a_session", 1)
		}
		if sid != r.prevLineSession {
			r.prevOtherSession = r.prevLineSession
		}
		r.prevLineSession = sid
		if strings.Contains(data, "{captcha}") {
			data = strings.Replace(data, "{captcha}", r.mint(st, sid, data), 1)
		}
		// E1 feeds the state machine what a client can get into the log: the POST handler cuts the
		// line at the first LF, CR or NUL (that the handler really does so is decided by the cluster
		// engine, which posts hostile bodies through the real handler).
		if i := strings.IndexAny(data, "\n\r\x00"); i >= 0 {
			data = data[:i]
		}
		cm := st.Cmid
		if cm == 0 {
			r.cmid[sid]++
			cm = 1000 + r.cmid[sid]
		}
		r.res.Add("lines_applied", 1)
		r.appendEntry(raft.LogCommand, &robust.Message{Session: robust.Id{Id: sid}, Type: robust.IRCFromClient, Data: data, ClientMessageId: cm, RemoteAddr: st.Addr})
		r.tr.Log("line %d %q", sid-r.offset, trunc(data, 40))
	case "mod":
		sid := r.sessionFor(st.S)
		if sid == 0 {
			return
		}
		r.cmid[sid]++
		r.appendEntry(raft.LogCommand, &robust.Message{Session: robust.Id{Id: sid}, Type: robust.MessageOfDeath, Data: st.Data, ClientMessageId: 1000 + r.cmid[sid]})
		r.res.Add("marked_entries", 1)
		r.tr.Log("mod %d", sid-r.offset)
	case "delete":
		sid := r.sessionFor(st.S)
		if sid == 0 {
			return
		}
		r.appendEntry(raft.LogCommand, &robust.Message{Session: robust.Id{Id: sid}, Type: robust.DeleteSession, Data: st.Data})
		r.tr.Log("delete %d", sid-r.offset)
	case "config":
		// what handlePostConfig/applyConfig do: parse first, compare revision, propose revision+1.
		// The state-machine half applies whatever is in the log, so stale revisions and
		// unparsable bodies are also fed (the API refuses them; a replica must at least agree).
		rev := r.cfgRev + 1
		if st.Rev != 0 {
			rev = uint64(int64(r.cfgRev) + int64(st.Rev) + 1)
		}
		_, perr := config.FromString(st.Data)
		if perr == nil && st.Rev == 0 {
			r.cfgRev = rev
			r.res.Add("configs_applied", 1)
		} else if perr == nil {
			// a stale/future revision in the log is installed by the FSM as is (the API never proposes it)
			r.cfgRev = rev
			r.res.Add("configs_odd_revision", 1)
		} else {
			r.res.Add("configs_unparsable", 1)
		}
		r.appendEntry(raft.LogCommand, &robust.Message{Type: robust.Config, Data: st.Data, Revision: rev})
		r.tr.Log("config rev %d ok=%v", rev, perr == nil)
	case "noop":
		r.appendEntry(raft.LogNoop, nil)
		r.res.Add("raft_internal_entries", 1)
		r.tr.Log("noop")
	case "advance":
		if st.Ms > 0 {
			time.Sleep(time.Duration(st.Ms) * time.Millisecond)
		}
		r.tr.Log("advance %d", st.Ms)
	case "apply":
		n := r.node(st.N)
		if n == nil || n.idx == 0 {
			return
		}
		lagBefore := uint64(len(r.log)) - n.applied
		r.applyOn(n, st.Cnt)
		if lagBefore > 0 {
			r.res.Add("lagging_applies", 1)
		}
		r.lagProbe(n)
		if n.applied == r.nodes[0].applied {
			r.compareStates("after catch-up", "")
		}
		r.tr.Log("apply n%d -> %d", n.idx, n.applied)
	case "expire":
		r.expire()
	case "snap":
		r.snap(st)
	case "restart":
		r.restart(st)
	case "upgrade":
		// rolling encoding upgrade: from now on messages, stores and snapshots use protobuf; the node is
		// restarted so that its stores are converted on open
		if n := r.node(st.N); n != nil && n.idx != 0 && !n.proto {
			n.proto = true // the restarted process runs with -pre1.0_protobuf=true and converts its stores on open
			r.res.Add("encoding_upgrades", 1)
			r.tr.Log("upgrade n%d to protobuf", n.idx)
		}
		r.restart(st)
	case "install":
		r.install(st)
	case "selfrestore":
		r.selfRestore(st)
	case "cycle":
		r.cycle(st)
	}
}

func (r *e1Run) node(k int) *e1Node {
	if len(r.nodes) == 0 {
		return nil
	}
	if k < 0 {
		k = -k
	}
	n := r.nodes[k%len(r.nodes)]
	if n.dead {
		return nil
	}
	return n
}

func (r *e1Run) mint(st e1Step, sid uint64, data string) string {
	// the server's challenge encodes the session's LastActivity at the time the challenge was issued;
	// mint as if the challenge had been issued by the session's latest activity on node 0.
	var la int64
	auth := ""
	for _, s := range ircserver.VerifSessions(r.nodes[0].irc) {
		if s.Id == sid && s.Reply == 0 {
			la = s.LastActivity.UnixNano()
		}
	}
	if ps := ircserver.VerifPriv(r.nodes[0].irc).Sess[[2]uint64{sid, 0}]; ps != nil {
		auth = ps.Auth
	}
	cmd, arg := "join", ""
	f := strings.Fields(data)
	if len(f) >= 2 && strings.EqualFold(f[0], "JOIN") {
		arg = strings.Split(f[1], ",")[0]
		// the challenge carries the channel's original name
		if c := ircserver.VerifPriv(r.nodes[0].irc).Chans[strings.ToLower(arg)]; c != nil {
			arg = c.Name
		}
	} else {
		cmd = "login"
	}
	switch st.Captcha {
	case "old", "old5", "ancient":
		r.res.Add("captcha_tokens_expired_presented", 1)
	case "ok", "edge":
		r.res.Add("captcha_tokens_valid_presented", 1)
	default:
		r.res.Add("captcha_tokens_forged_presented", 1)
	}
	return mintCaptcha(st.Captcha, auth, la, cmd, arg)
}

// expire runs the leader's expiry sweep on node 0 and commits what it proposes (C17).
func (r *e1Run) expire() {
	n := r.nodes[0]
	now := time.Now()
	msgs := n.irc.ExpireSessions()
	r.res.Add("expire_sweeps", 1)
	r.model.checkExpiry(now, msgs)
	for _, m := range msgs {
		r.appendEntry(raft.LogCommand, &robust.Message{Session: m.Session, Type: robust.DeleteSession, Data: m.Data})
		r.res.Add("expired_sessions", 1)
	}
	r.tr.Log("expire %d", len(msgs))
}

func (r *e1Run) snap(st e1Step) {
	n := r.node(st.N)
	if n == nil || n.idx == 0 {
		return
	}
	idxs := n.irclogIndexes()
	// choose the compaction time so that a chosen part of the node's log copy is older than the horizon
	exp := r.model.expirationInForceAt(n.applied)
	horizon := exp + expireSessionsInterval
	T := time.Now()
	if st.Frac >= 0 && len(idxs) > 0 {
		var cut time.Time
		switch {
		case st.Frac == 0:
			cut = r.entryAt[idxs[0]].TS.Add(-time.Nanosecond) // nothing is older
		case st.Frac >= 100:
			cut = r.entryAt[idxs[len(idxs)-1]].TS // everything is old enough
			if st.Frac > 100 {
				cut = cut.Add(time.Hour)
			}
		default:
			k := (len(idxs) * st.Frac) / 100
			if k >= len(idxs) {
				k = len(idxs) - 1
			}
			cut = r.entryAt[idxs[k]].TS
		}
		T = cut.Add(horizon)
	}
	if T.UnixNano() <= 0 {
		return
	}
	failAt := -1
	if st.Fail > 0 {
		failAt = st.Fail
	}
	// expected fold prefix, computed from the log alone: entries are folded in index order
	// while their timestamp is not after compactionEnd (= T - horizon as the config in force says)
	end := T.Add(-horizon)
	var expectFold []uint64
	for _, idx := range idxs {
		if r.entryAt[idx].TS.After(end) {
			break
		}
		expectFold = append(expectFold, idx)
	}
	// exactness of deletion is judged right after Snapshot() returned (raft persists the snapshot in another
	// goroutine while the FSM goes on applying entries)
	exactChecked, exactOK := false, true
	between := func() {
		exactChecked = true
		remaining := n.irclogIndexes()
		wantRemaining := idxs[len(expectFold):]
		if fmt.Sprint(remaining) != fmt.Sprint(wantRemaining) {
			exactOK = false
			r.violate("C02", "fold-not-exact", "fold-not-exact", fmt.Sprintf("node %d: after Snapshot() at horizon end %v the log copy holds %v, expected exactly %v (before: %v)", n.idx, end.UTC(), remaining, wantRemaining, idxs))
			return
		}
		if st.Mid > 0 && !st.Skip {
			before := n.applied
			r.applyOn(n, st.Mid)
			if n.applied > before {
				r.res.Add("entries_applied_during_persist", int64(n.applied-before))
			}
		}
	}
	sr := n.snapshotWith(T, failAt, st.Skip, between)
	r.res.Add("snapshots_attempted", 1)
	r.tr.Log("snap n%d frac=%d fold=%d err=%v persisted=%v", n.idx, st.Frac, len(expectFold), sr.err != nil, sr.persisted)
	if sr.err != nil && !sr.persisted && sr.first == 0 && sr.last == 0 {
		// Snapshot() itself refused (e.g. empty log copy): nothing may have changed
		r.res.Add("snapshots_refused", 1)
		if got := n.irclogIndexes(); fmt.Sprint(got) != fmt.Sprint(idxs) {
			r.violate("C02", "refused-snapshot-changed-log", "refused-snapshot-changed-log", fmt.Sprintf("node %d: Snapshot() failed (%v) but the log copy changed from %v to %v", n.idx, sr.err, idxs, got))
		}
		return
	}
	if !sr.end.Equal(end) {
		r.violate("C02", "wrong-horizon", "wrong-horizon", fmt.Sprintf("node %d: compaction at %v used horizon end %v, but session expiration in force is %v so inputs older than %v (and only those) may be folded", n.idx, T.UTC(), sr.end.UTC(), exp, end.UTC()))
		return
	}
	if !exactChecked {
		between()
	}
	if !exactOK {
		return
	}
	if len(expectFold) > 0 {
		n.foldedUpTo = expectFold[len(expectFold)-1]
		r.res.Add("snapshots_folding", 1)
		if len(expectFold) == len(idxs) {
			r.res.Add("snapshots_folded_all", 1)
		}
	} else {
		r.res.Add("snapshots_folding_nothing", 1)
	}
	if sr.persisted {
		r.res.Add("snapshots_persisted", 1)
		// raft truncates its log behind the snapshot, keeping TrailingLogs entries
		if tl := uint64(r.sc.Trailing); n.lastSnapIndex > tl {
			first, _ := n.logs.FirstIndex()
			if first > 0 && n.lastSnapIndex-tl >= first {
				n.logs.DeleteRange(first, n.lastSnapIndex-tl)
			}
		}
	} else if sr.err != nil {
		r.res.Add("persist_failures", 1)
	} else {
		r.res.Add("persist_skipped_crash", 1)
	}
	r.checkRetained(n, "after snapshot")
	if n.applied == r.nodes[0].applied {
		r.compareStates("after snapshot", "C02")
	}
}

// restart: kill the node process and start it again from its directory: newest
// loadable snapshot is restored into a fresh FSM, then the raft log is replayed.
func (r *e1Run) restart(st e1Step) {
	n := r.node(st.N)
	if n == nil || n.idx == 0 {
		return
	}
	had := n.applied
	n.stop()
	if err := n.start(); err != nil {
		r.res.Inconclusive = "harness: restart: " + err.Error()
		return
	}
	r.res.Add("restarts", 1)
	r.tr.Log("restart n%d", n.idx)
	if b, idx, ok := n.newestSnapshot(); ok {
		err, p, stack := n.restoreFrom(b, idx)
		if p != nil {
			r.violate("C02", "restore-panic", "restore-panic:"+panicSite(stack), fmt.Sprintf("node %d: Restore of its newest snapshot (index %d) panicked: %v\n%s", n.idx, idx, p, firstLinesOf(stack, 20)))
			r.stopped = true
			return
		}
		if err != nil {
			r.violate("C02", "restore-error", "restore-error", fmt.Sprintf("node %d: Restore of its newest snapshot (index %d) failed: %v", n.idx, idx, err))
			r.stopped = true // a node whose Restore failed half-way has no defined state: the run ends here (reported under C02)
			return
		}
		r.res.Add("restores", 1)
		n.restored = true
		r.model.noteRestore(n)
	}
	// replay what the node had (raft replays its log up to the commit index); it must find the entries in its own store
	first, _ := n.logs.FirstIndex()
	if first > n.applied+1 && n.applied < had {
		r.violate("C02", "log-gap-after-restart", "log-gap-after-restart", fmt.Sprintf("node %d: snapshot index %d but raft log starts at %d", n.idx, n.applied, first))
		return
	}
	r.res.Add("entries_after_cycle", int64(uint64(len(r.log))-n.applied))
	for n.applied < had && !r.stopped {
		r.applyOn(n, 1)
	}
	if r.stopped {
		return
	}
	r.checkRetained(n, "after restart")
	if n.applied == r.nodes[0].applied {
		r.compareStates("after restart+replay", "C02")
	}
}

// selfRestore: FSM.Restore of the node's own newest snapshot on the same FSM instance (no restart; what
// TestCompaction does and what raft's user-triggered Restore does), followed by replay of the log tail.
func (r *e1Run) selfRestore(st e1Step) {
	n := r.node(st.N)
	if n == nil || n.idx == 0 {
		return
	}
	b, idx, ok := n.newestSnapshot()
	if !ok {
		return
	}
	had := n.applied
	err, p, stack := n.restoreFrom(b, idx)
	r.tr.Log("selfrestore n%d @%d", n.idx, idx)
	if p != nil {
		r.violate("C02", "restore-panic", "restore-panic:"+panicSite(stack), fmt.Sprintf("node %d: Restore of its own snapshot (index %d) panicked: %v\n%s", n.idx, idx, p, firstLinesOf(stack, 20)))
		r.stopped = true
		return
	}
	if err != nil {
		r.violate("C02", "restore-error", "restore-error", fmt.Sprintf("node %d: Restore of its own snapshot (index %d) failed: %v", n.idx, idx, err))
		r.stopped = true // a node whose Restore failed half-way has no defined state: the run ends here (reported under C02)
		return
	}
	n.restored = true
	r.res.Add("restores", 1)
	r.res.Add("self_restores", 1)
	first, _ := n.logs.FirstIndex()
	if first > n.applied+1 && n.applied < had {
		return // the tail is no longer in the raft log (TrailingLogs); the node waits for the leader
	}
	for n.applied < had && !r.stopped {
		r.applyOn(n, 1)
	}
	if r.stopped {
		return
	}
	r.checkRetained(n, "after restore on the same FSM")
	if n.applied == r.nodes[0].applied {
		r.compareStates("after restore on the same FSM + replay", "C02")
	}
}

// install: a lagging follower receives the leader's newest snapshot (InstallSnapshot).
func (r *e1Run) install(st e1Step) {
	n, from := r.node(st.N), r.node(st.From)
	if n == nil || from == nil || n.idx == 0 || from == n {
		return
	}
	b, idx, ok := from.newestSnapshot()
	if !ok || idx < n.applied {
		return
	}
	err, p, stack := n.installSnapshot(b, idx)
	r.tr.Log("install n%d <- n%d @%d", n.idx, from.idx, idx)
	if p != nil {
		r.violate("C02", "restore-panic", "restore-panic:"+panicSite(stack), fmt.Sprintf("node %d: Restore of node %d's snapshot (index %d) panicked: %v\n%s", n.idx, from.idx, idx, p, firstLinesOf(stack, 20)))
		r.stopped = true
		return
	}
	if err != nil {
		r.violate("C02", "restore-error", "restore-error", fmt.Sprintf("node %d: Restore of node %d's snapshot (index %d) failed: %v", n.idx, from.idx, idx, err))
		r.stopped = true // a node whose Restore failed half-way has no defined state: the run ends here (reported under C02)
		return
	}
	r.res.Add("restores", 1)
	n.restored = true
	r.res.Add("installs", 1)
	r.res.Add("entries_after_cycle", int64(uint64(len(r.log))-n.applied))
	if n.stored < idx {
		n.stored = idx
	}
	n.foldedUpTo = from.foldedUpTo
	n.snapCount++
	r.model.noteRestore(n)
	// catch the follower up to the leader's state at that index is implicit; compare when equal
	if n.applied == r.nodes[0].applied {
		r.compareStates("after InstallSnapshot", "C02")
	}
	r.checkRetained(n, "after InstallSnapshot")
}

// cycle: serialize the node's IRC state and load it into a fresh instance in place (C03).
func (r *e1Run) cycle(st e1Step) {
	n := r.node(st.N)
	if n == nil || n.idx == 0 {
		return
	}
	before := ircserver.VerifDump(n.irc)
	b, err := n.irc.Marshal(n.applied)
	if err != nil {
		r.violate("C03", "marshal-error", "marshal-error", err.Error())
		return
	}
	fresh := ircserver.NewIRCServer(e1Network, time.Now())
	var perr interface{}
	func() {
		defer func() { perr = recover() }()
		_, err = fresh.Unmarshal(b)
	}()
	if perr != nil || err != nil {
		r.violate("C03", "unmarshal-error", "unmarshal-error", fmt.Sprintf("loading the state serialized at index %d failed: %v %v", n.applied, err, perr))
		return
	}
	after := ircserver.VerifDump(fresh)
	n.cycled = true
	r.res.Add("cycles", 1)
	r.res.Add("entries_after_cycle", int64(uint64(len(r.log))-n.applied))
	r.tr.Log("cycle n%d @%d", n.idx, n.applied)
	if unk, kn := stateDiff(before, after); unk != "" {
		r.violate("C03", "save-load-changed-state", "saveload:"+unk, fmt.Sprintf("node %d: state differs right after save+load at index %d in %v:\n%s", n.idx, n.applied, dumpDiffSigs(before, after), firstDiff(before, after)))
		return
	} else if kn != "" {
		r.tolerate("C03", "save-load-changed-state", "saveload:"+kn, fmt.Sprintf("node %d: state differs right after save+load at index %d in %s", n.idx, n.applied, kn))
	}
	n.irc = fresh
}

// lagProbe: C17 lookups on a node that has applied only a prefix.
func (r *e1Run) lagProbe(n *e1Node) {
	ids := []uint64{}
	for _, s := range r.sessions {
		ids = append(ids, s)
	}
	// ids between and beyond
	last := robust.IdFromRaftIndex(uint64(len(r.log)))
	ids = append(ids, robust.IdFromRaftIndex(n.applied), robust.IdFromRaftIndex(n.applied+1), last+1, last+1000, robust.IdFromRaftIndex(1))
	for _, id := range ids {
		_, err := n.irc.GetSession(robust.Id{Id: id})
		r.res.Add("lag_probes", 1)
		r.model.checkLookup(n, id, err)
	}
}

func TestVerifWorker(t *testing.T) {
	if os.Getenv("VERIF_PRINT_TYPEPATHS") != "" {
		for _, p := range ircserver.VerifTypePaths() {
			fmt.Println("TYPEPATH", p)
		}
		return
	}
	if os.Getenv("VERIF_MODE") == "" {
		t.Skip("simulation worker; run through /verif/bin/check")
	}
	e1T = t
	if code := core.WorkerMain(e1Engine{}); code != 0 {
		os.Exit(code)
	}
}
