package main

// Engine E1, part 4: per-entry oracles over (state before, input, outputs,
// state after) on the never-faulted node: C12 (recipients, identity), C13
// (privileged transitions), C14 (invariants, announcement consistency, limits),
// C15 (line well-formedness), C17 (lookup errors, expiry, session end).
//
// "State" is the white-box privileged snapshot (ircserver.VerifPriv). Every
// rule below is stated from the property text, not from the handlers: who is
// entitled to receive / to cause what, given the state just before the entry.

import (
	"crypto/hmac"
	"crypto/sha256"
	"encoding/base64"
	"fmt"
	"sort"
	"strconv"
	"strings"
	"time"

	"github.com/BurntSushi/toml"
	"github.com/robustirc/robustirc/internal/config"
	"github.com/robustirc/robustirc/internal/ircserver"
	"github.com/robustirc/robustirc/internal/robust"
	"gopkg.in/sorcix/irc.v2"
)

type priv = ircserver.VerifPrivState

type cfgPoint struct {
	index uint64
	exp   time.Duration
}

type obsModel struct {
	r *e1Run
	// sessions that ended (id -> index of the entry that ended them)
	ended map[uint64]uint64
	// created client sessions (id -> creation entry index); refused creations are absent
	created map[uint64]uint64
	// last activity per client session as the log defines it
	lastAct map[uint64]time.Time
	cfgs    []cfgPoint
	// channel membership as the server ANNOUNCED it (JOIN/PART/KICK/QUIT lines it sent), by lower-cased
	// channel name; the white-box membership is not trusted for who may receive channel traffic
	ann map[string]map[uint64]bool
	// (primary model only) the announced membership after each observed index: the models judging faulted
	// replicas use the announcements of the whole log, which a restored replica has not seen itself
	annHist map[uint64]map[string]map[uint64]bool
	annIdx  []uint64
}

func (m *obsModel) annAtOrBefore(idx uint64) map[string]map[uint64]bool {
	var best map[string]map[uint64]bool
	for _, i := range m.annIdx {
		if i <= idx {
			best = m.annHist[i]
		}
	}
	if best == nil {
		best = map[string]map[uint64]bool{}
	}
	return best
}

func newObsModel(r *e1Run) *obsModel {
	return &obsModel{r: r, ended: map[uint64]uint64{}, created: map[uint64]uint64{}, lastAct: map[uint64]time.Time{}, ann: map[string]map[uint64]bool{}, annHist: map[uint64]map[string]map[uint64]bool{}}
}

func (m *obsModel) expirationInForceAt(applied uint64) time.Duration {
	exp := 10 * time.Minute // the default configuration
	for _, c := range m.cfgs {
		if c.index <= applied {
			exp = c.exp
		}
	}
	if exp == 0 {
		exp = 10 * time.Minute // "in case the config does not set SessionExpiration at all"
	}
	return exp
}

func (m *obsModel) noteRestore(n *e1Node) {}

// --- helpers over a privileged snapshot ---

func sessByNick(p *priv, nick string) *ircserver.VerifSess {
	l := ircserver.VerifLower(nick)
	var found *ircserver.VerifSess
	var keys [][2]uint64
	for k := range p.Sess {
		keys = append(keys, k)
	}
	sort.Slice(keys, func(a, b int) bool {
		if keys[a][0] != keys[b][0] {
			return keys[a][0] < keys[b][0]
		}
		return keys[a][1] < keys[b][1]
	})
	for _, k := range keys {
		s := p.Sess[k]
		if s.Nick != "" && ircserver.VerifLower(s.Nick) == l {
			found = s
			break
		}
	}
	return found
}

func services(p *priv) map[uint64]bool {
	out := map[uint64]bool{}
	for _, s := range p.Sess {
		if s.Server && s.Reply == 0 {
			out[s.Id] = true
		}
	}
	return out
}

// memberIDs: recipient ids (session Id.Id; a pseudo-client maps to its link) of the members of a channel.
func memberIDs(p *priv, lcchan string) map[uint64]bool {
	out := map[uint64]bool{}
	c := p.Chans[lcchan]
	if c == nil {
		return out
	}
	for nk := range c.Members {
		if s := sessByNick(p, nk); s != nil {
			out[s.Id] = true
		}
	}
	return out
}

func chansOf(p *priv, s *ircserver.VerifSess) []string {
	var out []string
	if s == nil || s.Nick == "" {
		return out
	}
	l := ircserver.VerifLower(s.Nick)
	for ck, c := range p.Chans {
		for nk := range c.Members {
			if ircserver.VerifLower(nk) == l {
				out = append(out, ck)
			}
		}
	}
	sort.Strings(out)
	return out
}

func union(sets ...map[uint64]bool) map[uint64]bool {
	out := map[uint64]bool{}
	for _, s := range sets {
		for k, v := range s {
			if v {
				out[k] = true
			}
		}
	}
	return out
}

func subset(r []uint64, allowed map[uint64]bool, ignore map[uint64]bool) (uint64, bool) {
	for _, id := range r {
		if ignore[id] {
			continue
		}
		if !allowed[id] {
			return id, false
		}
	}
	return 0, true
}

func setOf(ids ...uint64) map[uint64]bool {
	out := map[uint64]bool{}
	for _, id := range ids {
		out[id] = true
	}
	return out
}

func idList(m map[uint64]bool, off uint64) string {
	var ids []uint64
	for k := range m {
		ids = append(ids, k)
	}
	sort.Slice(ids, func(a, b int) bool { return ids[a] < ids[b] })
	var s []string
	for _, id := range ids {
		s = append(s, strconv.FormatUint(id-off, 10))
	}
	return "{" + strings.Join(s, ",") + "}"
}

func isNumeric(cmd string) bool {
	if len(cmd) != 3 {
		return false
	}
	for _, c := range cmd {
		if c < '0' || c > '9' {
			return false
		}
	}
	return true
}

// globMatch: the ban mask semantics as documented for users: '*' matches any
// run of characters, everything else literally; the mask is searched for
// anywhere in the subject (masks are not anchored).
func globMatch(mask, subject string) bool {
	parts := strings.Split(mask, "*")
	// unanchored: try every start offset for the first literal
	var try func(pi int, s string, anchored bool) bool
	try = func(pi int, s string, anchored bool) bool {
		if pi == len(parts) {
			return true
		}
		p := parts[pi]
		if p == "" {
			return try(pi+1, s, false)
		}
		if anchored {
			if strings.HasPrefix(s, p) {
				return try(pi+1, s[len(p):], false)
			}
			return false
		}
		for off := 0; off+len(p) <= len(s); off++ {
			if s[off:off+len(p)] == p && try(pi+1, s[off+len(p):], false) {
				return true
			}
		}
		return false
	}
	_ = try
	// simple backtracking matcher: literal parts must occur in order; first part may start anywhere
	pos := 0
	for _, p := range parts {
		if p == "" {
			continue
		}
		i := strings.Index(subject[pos:], p)
		if i < 0 {
			return false
		}
		pos += i + len(p)
	}
	return true
}

func captchaValid(p *priv, s *ircserver.VerifSess, token string, now time.Time) bool {
	// within one minute after a solved captcha no new one is needed
	if now.Sub(s.LastSolvedCaptcha) < time.Minute {
		return true
	}
	parts := strings.Split(token, ".")
	if len(parts) != 3 {
		return false
	}
	var dec [3][]byte
	for k, part := range parts {
		b, err := base64.StdEncoding.DecodeString(part)
		if err != nil {
			return false
		}
		dec[k] = b
	}
	purpose := string(dec[0])
	if !strings.HasPrefix(purpose, "okay:") {
		return false
	}
	mac := hmac.New(sha256.New, p.CaptchaKey)
	mac.Write(dec[0])
	mac.Write(dec[1])
	if !hmac.Equal(dec[2], mac.Sum(nil)) {
		return false
	}
	pp := strings.Split(purpose, ":")
	if len(pp) != 4 {
		return false
	}
	ts, err := strconv.ParseInt(pp[2], 10, 64)
	if err != nil {
		return false
	}
	return now.Sub(time.Unix(0, ts)) <= 5*time.Minute
}

// ---------------------------------------------------------------------------

func (m *obsModel) observe(n *e1Node, e *logEntry, outs []outMsg, before *priv) {
	r := m.r
	after := ircserver.VerifPriv(n.irc)
	msg := e.Msg
	off := r.offset

	// --- bookkeeping from the log itself (C17) ---
	switch msg.Type {
	case robust.CreateSession:
		if _, ok := after.Sess[[2]uint64{msg.Id.Id, 0}]; ok {
			m.created[msg.Id.Id] = e.Index
			m.lastAct[msg.Id.Id] = e.TS
		}
	case robust.IRCFromClient, robust.MessageOfDeath:
		if sb, ok := before.Sess[[2]uint64{msg.Session.Id, 0}]; ok {
			// an entry that repeats the session's last client message id is a retry that was already applied:
			// like a retry answered by the HTTP handler, it is not a new activity
			if msg.Type == robust.MessageOfDeath || msg.ClientMessageId == 0 || sb.LastClientID != msg.ClientMessageId {
				m.lastAct[msg.Session.Id] = e.TS
			}
		}
	case robust.Config:
		if cfg, err := config.FromString(msg.Data); err == nil {
			// what the update specifies, decoded independently of the code under test
			var raw map[string]interface{}
			specified := time.Duration(0)
			if _, derr := toml.Decode(msg.Data, &raw); derr == nil {
				if sv, ok := raw["SessionExpiration"].(string); ok {
					if d, perr := time.ParseDuration(sv); perr == nil {
						specified = d
					}
				}
			}
			_ = cfg
			m.cfgs = append(m.cfgs, cfgPoint{e.Index, specified})
			// C16: an applied update is in force from this position on, with the revision the entry names
			if after.Revision != msg.Revision {
				r.violate("C16", "config-not-installed", "config-not-installed", fmt.Sprintf("index %d: parsable config with revision %d applied, revision in force afterwards is %d", e.Index, msg.Revision, after.Revision))
			}
			// ... and it is exactly the configuration that was posted (nothing carried over, nothing dropped).
			// The expectation is decoded from the TOML directly, not through the project's own helper.
			var posted config.Network
			if _, derr := toml.Decode(msg.Data, &posted); derr == nil {
				cfg = posted
			}
			want := map[string]string{
				"Operators":   fmt.Sprint(cfg.IRC.Operators),
				"Services":    fmt.Sprint(cfg.IRC.Services),
				"Expiration":  fmt.Sprint(time.Duration(cfg.SessionExpiration)),
				"MaxSessions": fmt.Sprint(cfg.MaxSessions),
				"MaxChannels": fmt.Sprint(cfg.MaxChannels),
				"CaptchaURL":  cfg.CaptchaURL,
				"CaptchaKey":  fmt.Sprintf("%x", []byte(cfg.CaptchaHMACSecret)),
				"CaptchaReq":  fmt.Sprint(cfg.CaptchaRequiredForLogin),
				"Banned":      fmt.Sprint(sortedMap(cfg.Banned)),
				"Bridges":     fmt.Sprint(sortedMap(cfg.TrustedBridges)),
			}
			var origins []string
			for k, v := range cfg.WhitelistedOrigins {
				if v {
					origins = append(origins, k)
				}
			}
			sort.Strings(origins)
			want["Origins"] = fmt.Sprint(origins)
			var ops, svcs []string
			for _, o := range after.Operators {
				ops = append(ops, fmt.Sprintf("{%s %s}", o[0], o[1]))
			}
			for _, sp := range after.ServicePws {
				svcs = append(svcs, fmt.Sprintf("{%s}", sp))
			}
			got := map[string]string{
				"Operators":   "[" + strings.Join(ops, " ") + "]",
				"Services":    "[" + strings.Join(svcs, " ") + "]",
				"Expiration":  fmt.Sprint(after.Expiration),
				"MaxSessions": fmt.Sprint(after.MaxSessions),
				"MaxChannels": fmt.Sprint(after.MaxChannels),
				"CaptchaURL":  after.CaptchaURL,
				"CaptchaKey":  fmt.Sprintf("%x", after.CaptchaKey),
				"CaptchaReq":  fmt.Sprint(after.CaptchaReq),
				"Banned":      fmt.Sprint(sortedMap(after.Banned)),
				"Bridges":     fmt.Sprint(sortedMap(after.Bridges)),
				"Origins":     fmt.Sprint(append([]string(nil), after.Origins...)),
			}
			for _, k := range []string{"Operators", "Services", "Expiration", "MaxSessions", "MaxChannels", "CaptchaURL", "CaptchaKey", "CaptchaReq", "Banned", "Bridges", "Origins"} {
				if got[k] != want[k] {
					r.violate("C16", "config-not-installed", "config-field-not-installed:"+k, fmt.Sprintf("index %d: after applying the configuration update (revision %d) %s in force is %s, the update says %s", e.Index, msg.Revision, k, got[k], want[k]))
				}
			}
		} else if after.Revision != before.Revision {
			r.violate("C16", "invalid-config-took-effect", "invalid-config-took-effect", fmt.Sprintf("index %d: unparsable config changed the revision from %d to %d", e.Index, before.Revision, after.Revision))
		}
	}
	for k := range before.Sess {
		if k[1] == 0 {
			if _, still := after.Sess[k]; !still {
				m.ended[k[0]] = e.Index
			}
		}
	}
	// C17: the sessions a services link introduced end with it (they are reachable only through it)
	for k, s := range after.Sess {
		if k[1] != 0 {
			if _, link := after.Sess[[2]uint64{k[0], 0}]; !link {
				r.violate("C17", "pseudo-client-outlives-link", "pseudo-client-outlives-link", fmt.Sprintf("index %d (%s): session %d.%d (nick %q) still exists although session %d, through which it was introduced, ended at index %d", e.Index, descr(e), k[0]-r.offset, k[1], s.Nick, k[0]-r.offset, m.ended[k[0]]))
			}
		}
	}

	// --- C14: invariants and limits ---
	for _, bad := range ircserver.VerifInvariants(n.irc) {
		kind := bad
		if i := strings.Index(bad, ":"); i > 0 {
			kind = bad[:i]
		}
		r.violate("C14", "invariant", "invariant:"+kind+":"+cmdOf(e), fmt.Sprintf("after index %d (%s): %s", e.Index, descr(e), bad))
	}
	r.res.Add("invariant_walks", 1)
	if len(after.Sess) > len(before.Sess) && after.MaxSessions > 0 && uint64(len(after.Sess)) > after.MaxSessions {
		r.violate("C14", "limit-exceeded", "max-sessions:"+cmdOf(e), fmt.Sprintf("index %d (%s) raised the number of sessions to %d, MaxSessions is %d", e.Index, descr(e), len(after.Sess), after.MaxSessions))
	}
	if len(after.Chans) > len(before.Chans) && after.MaxChannels > 0 && uint64(len(after.Chans)) > after.MaxChannels {
		r.violate("C14", "limit-exceeded", "max-channels:"+cmdOf(e), fmt.Sprintf("index %d (%s) raised the number of channels to %d, MaxChannels is %d", e.Index, descr(e), len(after.Chans), after.MaxChannels))
	}

	// --- marked entries: no output, no effect besides the duplicate marker ---
	if msg.Type == robust.MessageOfDeath {
		if len(outs) > 0 {
			r.violate("C07", "marked-entry-output", "marked-entry-output", fmt.Sprintf("index %d is marked as message of death but produced output %s", e.Index, outString(outs)))
		}
		if s := after.Sess[[2]uint64{msg.Session.Id, 0}]; s != nil && s.LastClientID != msg.ClientMessageId {
			r.violate("C10", "marker-not-advanced", "marker-not-advanced-by-marked-entry", fmt.Sprintf("index %d (message of death, client message id %d): duplicate marker of session is %d", e.Index, msg.ClientMessageId, s.LastClientID))
		}
		return
	}
	if msg.Type == robust.IRCFromClient {
		if s := after.Sess[[2]uint64{msg.Session.Id, 0}]; s != nil {
			r.res.Add("dup_markers_compared", 1)
			if s.LastClientID != msg.ClientMessageId {
				r.violate("C10", "marker-not-advanced", "marker-not-advanced:"+cmdOf(e), fmt.Sprintf("index %d (%s): client message id %d applied, duplicate marker is %d", e.Index, descr(e), msg.ClientMessageId, s.LastClientID))
			}
			// what the POST handler and the state machine consult to recognise a repeat, for every kind of session
			if got := n.irc.LastPostMessage(robust.Id{Id: msg.Session.Id}); got != msg.ClientMessageId {
				role := "client"
				if s.Server {
					role = "services link"
				}
				r.violate("C10", "marker-not-advanced", "last-post-message-wrong:"+role, fmt.Sprintf("index %d (%s): client message id %d of a %s session applied, LastPostMessage answers %d: a repeat of this POST would not be recognised", e.Index, descr(e), msg.ClientMessageId, role, got))
			}
		}
		// an entry repeating the id of the session's last applied message is a retry: it is not applied again
		if sb := before.Sess[[2]uint64{msg.Session.Id, 0}]; sb != nil && msg.ClientMessageId != 0 && sb.LastClientID == msg.ClientMessageId {
			r.res.Add("repeated_ids_in_log", 1)
			if len(outs) > 0 {
				r.violate("C10", "retry-applied-twice", "repeat-produced-output:"+cmdOf(e), fmt.Sprintf("index %d (%s) repeats client message id %d, the last one applied for its session, and produced output again: %s", e.Index, descr(e), msg.ClientMessageId, trunc(outString(outs), 300)))
			}
		}
	}
	// C17: a session is gone once the entry that ends it has been applied
	if sb := before.Sess[[2]uint64{msg.Session.Id, 0}]; sb != nil {
		ends := msg.Type == robust.DeleteSession
		if msg.Type == robust.IRCFromClient && !sb.Server && !(msg.ClientMessageId != 0 && sb.LastClientID == msg.ClientMessageId) {
			if pm := irc.ParseMessage(msg.Data); pm != nil && strings.ToUpper(pm.Command) == "QUIT" {
				ends = true
			}
		}
		if ends {
			r.res.Add("session_endings_checked", 1)
			if _, still := after.Sess[[2]uint64{msg.Session.Id, 0}]; still {
				r.violate("C17", "ended-session-still-exists", "ended-session-still-exists:"+cmdOf(e), fmt.Sprintf("index %d (%s): session %d (nick %q, registered=%v) still exists after the entry that ends it", e.Index, descr(e), msg.Session.Id-off, sb.Nick, sb.LoggedIn))
			}
		}
	}

	if msg.Type != robust.IRCFromClient && msg.Type != robust.DeleteSession {
		return
	}
	actor := before.Sess[[2]uint64{msg.Session.Id, 0}]
	if actor == nil {
		// input for a session that does not exist (any more): must be without effect
		if len(outs) > 0 {
			r.violate("C17", "dead-session-input-has-output", "dead-session-input-has-output", fmt.Sprintf("index %d (%s) from a session that does not exist produced output", e.Index, descr(e)))
		}
		return
	}

	line := msg.Data
	if msg.Type == robust.DeleteSession {
		line = "QUIT :" + msg.Data
	}
	in := irc.ParseMessage(line)
	cmd := ""
	if in != nil {
		cmd = strings.ToUpper(in.Command)
	}
	svcB, svcA := services(before), services(after)
	svc := union(svcB, svcA)
	isLink := actor.Server

	// sessions ended by this entry (may legitimately receive the closing ERROR / their own QUIT / KILL)
	endedNow := map[uint64]bool{}
	for k := range before.Sess {
		if _, still := after.Sess[k]; !still {
			endedNow[k[0]] = true
		}
	}

	// ---- announced membership after this entry ----
	annBefore := m.ann
	if m != r.model {
		annBefore = r.model.annAtOrBefore(e.Index - 1)
	}
	annAfter := map[string]map[uint64]bool{}
	for ck, set := range annBefore {
		cp := map[uint64]bool{}
		for id := range set {
			cp[id] = true
		}
		annAfter[ck] = cp
	}
	idOfPrefix := func(pf *irc.Prefix) (uint64, bool) {
		if pf == nil {
			return 0, false
		}
		if strings.HasPrefix(pf.Host, "robust/0x") {
			if id, err := strconv.ParseUint(pf.Host[len("robust/0x"):], 16, 64); err == nil {
				return id, true
			}
		}
		for _, p := range []*priv{before, after} {
			if s := sessByNick(p, pf.Name); s != nil {
				return s.Id, true
			}
		}
		return 0, false
	}
	for _, o := range outs {
		pm := irc.ParseMessage(o.Data)
		if pm == nil || len(pm.Params) < 1 {
			if pm != nil && strings.ToUpper(pm.Command) == "QUIT" {
				if id, ok := idOfPrefix(pm.Prefix); ok {
					if ps := after.Sess[[2]uint64{id, 0}]; ps == nil || !ps.Server {
						for _, set := range annAfter {
							delete(set, id)
						}
					}
				}
			}
			continue
		}
		lc := strings.ToLower(pm.Params[0])
		switch strings.ToUpper(pm.Command) {
		case "JOIN":
			if id, ok := idOfPrefix(pm.Prefix); ok {
				if annAfter[lc] == nil {
					annAfter[lc] = map[uint64]bool{}
				}
				annAfter[lc][id] = true
			}
		case "PART":
			if id, ok := idOfPrefix(pm.Prefix); ok {
				// (a services link stays "present" through its other pseudo-clients; links are entitled anyway)
				if ps := after.Sess[[2]uint64{id, 0}]; ps == nil || !ps.Server {
					delete(annAfter[lc], id)
				}
			}
		case "KICK":
			if len(pm.Params) >= 2 {
				if t := sessByNick(before, pm.Params[1]); t != nil && !t.Server && t.Reply == 0 {
					delete(annAfter[lc], t.Id)
				}
			}
		case "QUIT":
			if id, ok := idOfPrefix(pm.Prefix); ok {
				if ps := after.Sess[[2]uint64{id, 0}]; ps == nil || !ps.Server {
					for _, set := range annAfter {
						delete(set, id)
					}
				}
			}
		}
	}
	// a session that no longer exists cannot be a member (and cannot receive anything: C17)
	for ck, set := range annAfter {
		for id := range set {
			if _, ok := after.Sess[[2]uint64{id, 0}]; !ok {
				delete(set, id)
			}
		}
		if _, exists := after.Chans[ck]; !exists {
			delete(annAfter, ck)
		}
	}
	m.ann = annAfter
	if m == r.model {
		m.annHist[e.Index] = annAfter
		m.annIdx = append(m.annIdx, e.Index)
	} else {
		// what the never-faulted node announced for this entry is what counts
		annAfter = r.model.annAtOrBefore(e.Index)
	}
	announced := func(lc string) map[uint64]bool { return union(annBefore[lc], annAfter[lc]) }
	intersect := func(a, b map[uint64]bool) map[uint64]bool {
		out := map[uint64]bool{}
		for id := range a {
			if b[id] {
				out[id] = true
			}
		}
		return out
	}

	membershipEvents := 0
	for _, o := range outs {
		// ---- C15 ----
		r.res.Add("lines_checked", 1)
		if w := wellFormed(o.Data); w != "" {
			r.violate("C15", "malformed-line", "malformed:"+w, fmt.Sprintf("index %d (%s): output %d.%d to %v is not one well-formed IRC line (%s): %q", e.Index-0, descr(e), o.Id-off, o.Reply, o.Rcpt, w, trunc(o.Data, 300)))
		}
		// ---- C17: the dead receive nothing ----
		for _, id := range o.Rcpt {
			if at, dead := m.ended[id]; dead && at < e.Index {
				r.violate("C17", "dead-recipient", "dead-recipient:"+cmdOf(e), fmt.Sprintf("index %d (%s): output %q addressed to session %d which ended at index %d", e.Index, descr(e), trunc(o.Data, 120), id-off, at))
			}
			if _, known := before.Sess[[2]uint64{id, 0}]; !known {
				if _, knownA := after.Sess[[2]uint64{id, 0}]; !knownA {
					if _, dead := m.ended[id]; !dead {
						r.violate("C12", "unknown-recipient", "unknown-recipient:"+cmdOf(e), fmt.Sprintf("index %d (%s): output %q addressed to id %d which is no session", e.Index, descr(e), trunc(o.Data, 120), id-off))
					}
				}
			}
		}
		if len(o.Rcpt) >= 2 {
			r.res.Add("multi_recipient_outputs", 1)
		}
		pm := irc.ParseMessage(o.Data)
		if pm == nil {
			continue
		}
		oc := strings.ToUpper(pm.Command)
		serverPrefix := pm.Prefix != nil && pm.Prefix.Name == e1Network && pm.Prefix.User == "" && pm.Prefix.Host == ""
		userPrefix := pm.Prefix != nil && !serverPrefix && pm.Prefix.Host != ""
		svcPrefix := userPrefix && pm.Prefix.User == "services" && pm.Prefix.Host == "services"

		// ---- C12: identity. A session-derived host names a session; nickname and user must be that session's.
		if userPrefix && strings.HasPrefix(pm.Prefix.Host, "robust/0x") {
			hid, err := strconv.ParseUint(pm.Prefix.Host[len("robust/0x"):], 16, 64)
			if err == nil {
				var subj *ircserver.VerifSess
				for _, p := range []*priv{before, after} {
					for _, s := range p.Sess {
						if s.Id == hid && subj == nil && (s.Nick == pm.Prefix.Name || ircserver.VerifLower(s.Nick) == ircserver.VerifLower(pm.Prefix.Name)) {
							subj = s
						}
					}
				}
				if subj == nil {
					r.violate("C12", "forged-identity", "forged-identity:"+oc+":"+cmdOf(e), fmt.Sprintf("index %d (%s): output %q carries prefix %s which is not the identity of any session with that host", e.Index, descr(e), trunc(o.Data, 160), pm.Prefix.String()))
				} else if !isLink && msg.Type == robust.IRCFromClient && (oc == "PRIVMSG" || oc == "NOTICE" || oc == "KICK" || oc == "TOPIC" || oc == "INVITE" || oc == "JOIN" || oc == "PART" || oc == "MODE" || oc == "NICK") {
					// relayed on behalf of the acting client: must be the actor's own current identity
					// (nickname and user name may be set by this very entry: NICK/USER completing the registration)
					aa := after.Sess[[2]uint64{actor.Id, 0}]
					okBefore := pm.Prefix.Name == actor.Nick && pm.Prefix.User == actor.User
					okAfter := aa != nil && pm.Prefix.Name == aa.Nick && pm.Prefix.User == aa.User
					if hid != actor.Id || !(okBefore || okAfter) {
						// (KILL-induced QUITs of the victim are not in this list)
						r.violate("C12", "wrong-sender-identity", "wrong-sender-identity:"+oc+":"+cmdOf(e), fmt.Sprintf("index %d (%s): relayed line %q carries prefix %s, sender is %s!%s@robust/0x%x", e.Index, descr(e), trunc(o.Data, 160), pm.Prefix.String(), actor.Nick, actor.User, actor.Id))
					}
				}
			}
		}

		// ---- C12: identity of lines relayed in the name of a services pseudo-client ----
		if svcPrefix && !isLink {
			// (a services link is trusted with the names it relays under; nobody else is)
			found := false
			for _, p := range []*priv{before, after} {
				for k, s := range p.Sess {
					if k[1] != 0 && ircserver.VerifLower(s.Nick) == ircserver.VerifLower(pm.Prefix.Name) {
						found = true
					}
				}
			}
			if !found {
				r.violate("C12", "forged-identity", "forged-identity:services:"+oc+":"+cmdOf(e), fmt.Sprintf("index %d (%s): output %q is relayed as services pseudo-client %s, but no session introduced by a services link has that nickname", e.Index, descr(e), trunc(o.Data, 160), pm.Prefix.String()))
			}
		}

		rset := setOf(o.Rcpt...)
		_ = rset
		chanOf := func(name string) string { return strings.ToLower(name) }
		bothMembers := func(lc string) map[uint64]bool {
			return intersect(union(memberIDs(before, lc), memberIDs(after, lc)), announced(lc))
		}
		subjectByPrefix := func() *ircserver.VerifSess {
			if pm.Prefix == nil {
				return nil
			}
			if s := sessByNick(before, pm.Prefix.Name); s != nil {
				return s
			}
			return sessByNick(after, pm.Prefix.Name)
		}
		allowOnly := func(allowed map[uint64]bool, what string) {
			if bad, ok := subset(o.Rcpt, allowed, svc); !ok {
				r.violate("C12", "leak", "leak:"+oc+":"+cmdOf(e), fmt.Sprintf("index %d (%s): %s %q was addressed to session %d, entitled: %s (recipients %v, ids relative to offset)", e.Index, descr(e), what, trunc(o.Data, 160), bad-off, idList(allowed, off), relIDs(o.Rcpt, off)))
			}
		}
		switch {
		case isNumeric(oc):
			allowed := setOf(actor.Id)
			if isLink {
				// services commands: replies go to the link (ignored) or to the user the command acts on
				if len(in.Params) > 0 {
					if t := sessByNick(before, in.Params[0]); t != nil && (cmd == "SVSJOIN" || cmd == "SVSPART" || cmd == "SVSNICK" || cmd == "SVSMODE") {
						allowed[t.Id] = true
					}
				}
			}
			allowOnly(allowed, "numeric reply")
		case oc == "ERROR":
			allowOnly(union(setOf(actor.Id), endedNow), "ERROR")
		case oc == "PONG":
			allowOnly(setOf(actor.Id), "PONG")
		case oc == "PRIVMSG" || oc == "NOTICE":
			if len(pm.Params) < 1 {
				break
			}
			tgt := pm.Params[0]
			switch {
			case !userPrefix:
				// server notice
				if strings.HasPrefix(tgt, "#") {
					allowOnly(bothMembers(chanOf(tgt)), "server notice to channel")
				} else {
					allowOnly(setOf(actor.Id), "server notice")
				}
			case strings.HasPrefix(tgt, "#"):
				lc := chanOf(tgt)
				want := memberIDs(before, lc)
				if !svcPrefix && !isLink {
					delete(want, actor.Id)
				}
				got := setOf(o.Rcpt...)
				for id := range svc {
					delete(want, id)
					delete(got, id)
				}
				if len(want) >= 2 {
					r.res.Add("relayed_checked_multi", 1)
				}
				r.res.Add("relayed_checked", 1)
				for id := range got {
					if !announced(lc)[id] {
						r.violate("C12", "leak", "leak:unannounced-member:"+cmdOf(e), fmt.Sprintf("index %d (%s): channel message %q was delivered to session %d, which never was announced as joining %s (or was announced as leaving it); announced members: %s", e.Index, descr(e), trunc(o.Data, 120), id-off, lc, idList(announced(lc), off)))
						break
					}
				}
				if idList(want, off) != idList(got, off) {
					r.violate("C12", "channel-message-recipients", "channel-message-recipients:"+cmdOf(e), fmt.Sprintf("index %d (%s): channel message %q delivered to %s, the other current members are %s", e.Index, descr(e), trunc(o.Data, 120), idList(got, off), idList(want, off)))
				}
			case strings.HasPrefix(tgt, "$"):
				if !isLink && !actor.Oper {
					r.violate("C13", "unprivileged-effect", "broadcast-by-non-oper", fmt.Sprintf("index %d (%s): network-wide message relayed for a session that is no IRC operator", e.Index, descr(e)))
				}
			default:
				owner := sessByNick(before, tgt)
				allowed := map[uint64]bool{}
				if owner != nil {
					allowed[owner.Id] = true
				}
				r.res.Add("relayed_checked", 1)
				allowOnly(allowed, "private message")
			}
		case oc == "JOIN" || oc == "PART" || oc == "TOPIC" || oc == "KICK":
			if len(pm.Params) < 1 {
				break
			}
			lc := chanOf(pm.Params[0])
			allowed := bothMembers(lc)
			if s := subjectByPrefix(); s != nil {
				allowed[s.Id] = true
			}
			membershipEvents++
			allowOnly(allowed, oc+" notification")
		case oc == "MODE":
			if len(pm.Params) < 1 {
				break
			}
			if strings.HasPrefix(pm.Params[0], "#") {
				allowOnly(union(bothMembers(chanOf(pm.Params[0])), setOf(actor.Id)), "channel MODE notification")
			} else {
				allowed := setOf(actor.Id)
				if t := sessByNick(before, pm.Params[0]); t != nil {
					allowed[t.Id] = true
				}
				allowOnly(allowed, "user MODE notification")
			}
		case oc == "NICK" && pm.Prefix != nil && len(pm.Params) == 1:
			subj := subjectByPrefix()
			if subj == nil {
				// the prefix does not name a nickname (a registered session that turned itself into a services
				// link keeps nickname and channels but carries the server name): the subject is the session
				// that holds the new nickname afterwards
				if sa := sessByNick(after, pm.Params[0]); sa != nil {
					subj = before.Sess[[2]uint64{sa.Id, sa.Reply}]
				}
			}
			allowed := map[uint64]bool{}
			if subj != nil {
				allowed[subj.Id] = true
				for _, ck := range chansOf(before, subj) {
					allowed = union(allowed, memberIDs(before, ck))
				}
				if sa := sessByNick(after, pm.Params[0]); sa != nil {
					for _, ck := range chansOf(after, sa) {
						allowed = union(allowed, memberIDs(after, ck))
					}
				}
			}
			membershipEvents++
			allowOnly(allowed, "NICK notification")
		case oc == "QUIT":
			subj := subjectByPrefix()
			allowed := map[uint64]bool{}
			if subj != nil {
				allowed[subj.Id] = true
				for _, ck := range chansOf(before, subj) {
					allowed = union(allowed, memberIDs(before, ck))
				}
			} else {
				// the prefix does not name a nickname (e.g. a session that turned itself into a services link
				// keeps its channels but announces under the link's name): the subject is a session that ends
				// in this entry
				for k, sb := range before.Sess {
					if _, still := after.Sess[k]; still {
						continue
					}
					allowed[sb.Id] = true
					for _, ck := range chansOf(before, sb) {
						allowed = union(allowed, memberIDs(before, ck))
					}
				}
			}
			membershipEvents++
			allowOnly(allowed, "QUIT notification")
		case oc == "KILL":
			allowed := map[uint64]bool{}
			if len(pm.Params) > 0 {
				if v := sessByNick(before, pm.Params[0]); v != nil {
					allowed[v.Id] = true
				}
			}
			allowOnly(allowed, "KILL")
		case oc == "INVITE":
			allowed := map[uint64]bool{}
			if len(pm.Params) > 0 {
				if v := sessByNick(before, pm.Params[0]); v != nil {
					allowed[v.Id] = true
				}
			}
			allowOnly(allowed, "INVITE")
		case oc == "SJOIN" || oc == "SERVER" || (oc == "NICK" && len(pm.Params) > 1):
			allowOnly(map[uint64]bool{}, "server-to-server line")
		default:
			allowOnly(setOf(actor.Id), "reply")
		}
	}
	r.res.Add("membership_events", int64(membershipEvents))

	// ---- C14: what was announced is what happened (membership seen by clients = membership held) ----
	m.announcementConsistency(e, outs, before, after, actor)

	// ---- C13: an invitation is for the channel as it existed; it must not outlive it ----
	for ck := range before.Chans {
		if _, still := after.Chans[ck]; still {
			continue
		}
		for k, sa := range after.Sess {
			if contains(sa.Invited, ck) {
				r.violate("C13", "unprivileged-effect", "invitation-outlives-channel", fmt.Sprintf("index %d (%s): channel %s ceased to exist but session %d keeps an invitation to it (it would admit the session to a later invite-only channel of that name)", e.Index, descr(e), ck, k[0]-off))
			}
		}
	}

	// ---- C13: privileged transitions ----
	if !isLink {
		m.checkTransition(e, in, cmd, actor, before, after, outs)
	} else {
		// a link is honoured only if it authenticated with a configured services password: Server flag
		// is itself a privileged transition checked when it is gained (below, in checkTransition of SERVER).
		r.res.Add("services_entries", 1)
	}
}

func relIDs(ids []uint64, off uint64) []uint64 {
	out := make([]uint64, len(ids))
	for k, id := range ids {
		out[k] = id - off
	}
	return out
}

// announcementConsistency: every change of channel membership between before and after corresponds to an
// announced JOIN/PART/KICK/QUIT/KILL (or the end of the session itself), and vice versa.
func (m *obsModel) announcementConsistency(e *logEntry, outs []outMsg, before, after *priv, actor *ircserver.VerifSess) {
	r := m.r
	type mem struct {
		ch string
		id [2]uint64
	}
	members := func(p *priv) map[mem]bool {
		out := map[mem]bool{}
		for ck, c := range p.Chans {
			for nk := range c.Members {
				if s := sessByNick(p, nk); s != nil {
					out[mem{ck, [2]uint64{s.Id, s.Reply}}] = true
				}
			}
		}
		return out
	}
	mb, ma := members(before), members(after)
	// announced events
	joined, left := map[string]bool{}, map[string]bool{} // "chan nick(lower)"
	quit := map[string]bool{}
	for _, o := range outs {
		pm := irc.ParseMessage(o.Data)
		if pm == nil || pm.Prefix == nil {
			continue
		}
		if pm.Prefix.User == "" && pm.Prefix.Host == "" {
			// a server name, not a nickname: the subject is a session that registered a nickname and then
			// turned itself into a services link (it knows the services password); it keeps its memberships
			// but is relayed under the server name. Such hybrids are not judged here.
			continue
		}
		switch strings.ToUpper(pm.Command) {
		case "JOIN":
			if len(pm.Params) > 0 {
				joined[strings.ToLower(pm.Params[0])+" "+ircserver.VerifLower(pm.Prefix.Name)] = true
			}
		case "PART":
			if len(pm.Params) > 0 {
				left[strings.ToLower(pm.Params[0])+" "+ircserver.VerifLower(pm.Prefix.Name)] = true
			}
		case "KICK":
			if len(pm.Params) > 1 {
				left[strings.ToLower(pm.Params[0])+" "+ircserver.VerifLower(pm.Params[1])] = true
			}
		case "QUIT":
			quit[ircserver.VerifLower(pm.Prefix.Name)] = true
		}
	}
	nickOf := func(p *priv, id [2]uint64) string {
		if s := p.Sess[id]; s != nil {
			return ircserver.VerifLower(s.Nick)
		}
		return ""
	}
	isLinkSession := func(id [2]uint64) bool {
		for _, p := range []*priv{before, after} {
			if s := p.Sess[id]; s != nil && s.Server {
				return true
			}
		}
		return false
	}
	for k := range ma {
		if mb[k] || isLinkSession(k.id) {
			continue
		}
		// gained membership: must have been announced as JOIN of that session's (new) nickname
		if !joined[k.ch+" "+nickOf(after, k.id)] && !joined[k.ch+" "+nickOf(before, k.id)] {
			r.violate("C14", "silent-membership-change", "silent-join:"+cmdOf(e), fmt.Sprintf("index %d (%s): session %d.%d became a member of %s without a JOIN being announced", e.Index, descr(e), k.id[0]-r.offset, k.id[1], k.ch))
		}
	}
	for k := range mb {
		if ma[k] || isLinkSession(k.id) {
			continue
		}
		nb := nickOf(before, k.id)
		_, alive := after.Sess[k.id]
		if !alive {
			continue // the session ended; everything of it is gone (checked by the invariants)
		}
		if !left[k.ch+" "+nb] && !quit[nb] {
			r.violate("C14", "silent-membership-change", "silent-part:"+cmdOf(e), fmt.Sprintf("index %d (%s): session %d.%d is no longer a member of %s although no PART/KICK/QUIT was announced", e.Index, descr(e), k.id[0]-r.offset, k.id[1], k.ch))
		}
	}
	// announced but not done
	for key := range joined {
		f := strings.SplitN(key, " ", 2)
		s := sessByNick(after, f[1])
		if s == nil || !ma[mem{f[0], [2]uint64{s.Id, s.Reply}}] {
			// a later event of the same entry may have removed it again (JOIN then PART in one line is impossible for clients; services lists may)
			if !left[key] && !quit[f[1]] {
				r.violate("C14", "announced-not-done", "announced-join-not-done:"+cmdOf(e), fmt.Sprintf("index %d (%s): JOIN of %s to %s was announced but the session is not a member afterwards", e.Index, descr(e), f[1], f[0]))
			}
		}
	}
	for key := range left {
		f := strings.SplitN(key, " ", 2)
		if s := sessByNick(after, f[1]); s != nil && ma[mem{f[0], [2]uint64{s.Id, s.Reply}}] && !joined[key] {
			r.violate("C14", "announced-not-done", "announced-part-not-done:"+cmdOf(e), fmt.Sprintf("index %d (%s): PART/KICK of %s from %s was announced but the session is still a member", e.Index, descr(e), f[1], f[0]))
		}
	}
}

// checkTransition validates every privileged difference between before and after for an entry of an
// ordinary (non-services) client session against the rights the actor held before (C13).
func (m *obsModel) checkTransition(e *logEntry, in *irc.Message, cmd string, actor *ircserver.VerifSess, before, after *priv, outs []outMsg) {
	r := m.r
	bad := func(sig, f string, a ...interface{}) {
		r.violate("C13", "unprivileged-effect", sig, fmt.Sprintf("index %d (%s): ", e.Index, descr(e))+fmt.Sprintf(f, a...))
	}
	r.res.Add("transitions_checked", 1)
	now := e.TS
	actorKey := ircserver.VerifLower(actor.Nick)
	actorAfter := after.Sess[[2]uint64{actor.Id, 0}]
	param := func(k int) string {
		if in != nil && k < len(in.Params) {
			return in.Params[k]
		}
		return ""
	}
	registered := actor.LoggedIn
	isMember := func(p *priv, ck string, nickKey string) (ircserver.VerifMember, bool) {
		c := p.Chans[ck]
		if c == nil {
			return ircserver.VerifMember{}, false
		}
		for nk, mm := range c.Members {
			if ircserver.VerifLower(nk) == nickKey {
				return mm, true
			}
		}
		return ircserver.VerifMember{}, false
	}
	actorIsOp := func(ck string) bool { mm, ok := isMember(before, ck, actorKey); return ok && mm.Op }
	actorIsMember := func(ck string) bool { _, ok := isMember(before, ck, actorKey); return ok && actor.Nick != "" }

	privileged := false

	// --- oper / server status of sessions ---
	for k, sa := range after.Sess {
		sb := before.Sess[k]
		if sb == nil {
			continue
		}
		if sa.Oper && !sb.Oper {
			privileged = true
			if k[0] != actor.Id {
				bad("oper-gained-by-other", "session %d became IRC operator through another session's line", k[0]-r.offset)
				continue
			}
			ok := false
			creds := [][2]string{}
			if cmd == "OPER" && in != nil && len(in.Params) >= 2 {
				creds = append(creds, [2]string{in.Params[0], in.Params[1]})
			}
			// PASS oper=<name> <password>, honoured when the login completes
			for _, part := range strings.Split(sb.Pass, ":") {
				if strings.HasPrefix(strings.ToLower(part), "oper=") {
					f := strings.Fields(part[len("oper="):])
					if len(f) >= 2 {
						creds = append(creds, [2]string{f[0], f[1]})
					}
				}
			}
			if cmd == "PASS" && in != nil {
				for _, part := range strings.Split(strings.Join(in.Params, " "), ":") {
					if strings.HasPrefix(strings.ToLower(part), "oper=") {
						f := strings.Fields(part[len("oper="):])
						if len(f) >= 2 {
							creds = append(creds, [2]string{f[0], f[1]})
						}
					}
				}
			}
			for _, c := range creds {
				for _, op := range before.Operators {
					if op[0] == c[0] && op[1] == c[1] {
						ok = true
					}
				}
			}
			if !ok {
				bad("oper-without-credentials", "session became IRC operator without a configured name/password (configured: %d operators)", len(before.Operators))
			}
		}
		if sa.Server && !sb.Server {
			privileged = true
			ok := false
			for _, pw := range before.ServicePws {
				if sb.Pass == "services="+pw {
					ok = true
				}
			}
			if !ok || k[0] != actor.Id || cmd != "SERVER" {
				bad("server-without-password", "session %d became a services link without having presented a configured services password (PASS was %q)", k[0]-r.offset, sb.Pass)
			}
		}
	}
	// --- sessions ended other than the actor: KILL/GLINE need an operator ---
	for k, sb := range before.Sess {
		if _, still := after.Sess[k]; still || k[0] == actor.Id {
			continue
		}
		privileged = true
		if !actor.Oper || (cmd != "KILL" && cmd != "GLINE") {
			bad("kill-by-non-oper", "session %d (%s) was removed by a line of a session that is no IRC operator", k[0]-r.offset, sb.Nick)
		}
	}
	// --- network bans ---
	if fmt.Sprint(sortedMap(before.Banned)) != fmt.Sprint(sortedMap(after.Banned)) {
		privileged = true
		if !actor.Oper || cmd != "GLINE" {
			bad("gline-by-non-oper", "the network ban list changed (%v -> %v) by a session that is no IRC operator", sortedMap(before.Banned), sortedMap(after.Banned))
		}
	}
	// --- invitations ---
	for k, sa := range after.Sess {
		sb := before.Sess[k]
		if sb == nil {
			continue
		}
		for _, ck := range sa.Invited {
			if contains(sb.Invited, ck) {
				continue
			}
			privileged = true
			c := before.Chans[ck]
			switch {
			case cmd != "INVITE" || !registered:
				bad("invite-by-other-command", "session %d gained an invitation to %s", k[0]-r.offset, ck)
			case c == nil || !actorIsMember(ck):
				bad("invite-by-non-member", "invitation to %s handed out by a session that is not on the channel", ck)
			case strings.Contains(c.Modes, "i") && !actorIsOp(ck):
				bad("invite-to-invite-only-by-non-op", "invitation to invite-only %s handed out by a non-operator", ck)
			}
		}
	}
	// --- channels ---
	cks := map[string]bool{}
	for ck := range before.Chans {
		cks[ck] = true
	}
	for ck := range after.Chans {
		cks[ck] = true
	}
	var order []string
	for ck := range cks {
		order = append(order, ck)
	}
	sort.Strings(order)
	for _, ck := range order {
		cb, ca := before.Chans[ck], after.Chans[ck]
		if ca == nil {
			continue // channel vanished with its last member; member removal is judged below via cb
		}
		entitledMode := cb != nil && actorIsMember(ck) && (actorIsOp(ck) || actor.Oper) && registered && cmd == "MODE" && strings.ToLower(param(0)) == ck
		if cb != nil {
			if cb.Modes != ca.Modes || cb.Key != ca.Key || fmt.Sprint(cb.Bans) != fmt.Sprint(ca.Bans) {
				privileged = true
				if !entitledMode {
					bad("mode-by-non-op:"+cmd, "channel %s modes/key/bans changed (%q key=%q bans=%v -> %q key=%q bans=%v) although the actor is not entitled (member=%v chanop=%v oper=%v)", ck, cb.Modes, cb.Key, cb.Bans, ca.Modes, ca.Key, ca.Bans, actorIsMember(ck), actorIsOp(ck), actor.Oper)
				}
			}
			if cb.Topic != ca.Topic || cb.TopicSet != ca.TopicSet || cb.TopicNick != ca.TopicNick {
				privileged = true
				switch {
				case cmd != "TOPIC" || !registered:
					bad("topic-by-other-command", "topic of %s changed", ck)
				case !actorIsMember(ck):
					bad("topic-by-non-member", "topic of %s set or cleared by a session that is not on the channel", ck)
				case strings.Contains(cb.Modes, "t") && !actorIsOp(ck):
					bad("topic-by-non-op", "topic of +t channel %s changed by a non-operator", ck)
				}
			}
		}
		// members
		for nk, ma := range ca.Members {
			var mbm ircserver.VerifMember
			had := false
			if cb != nil {
				mbm, had = isMember(before, ck, ircserver.VerifLower(nk))
			}
			s := sessByNick(after, nk)
			renamed := false
			if !had && cb != nil && s != nil && s.Id == actor.Id && cmd == "NICK" {
				// the actor's membership follows its nickname
				if mm, ok := isMember(before, ck, actorKey); ok {
					mbm, had, renamed = mm, true, true
				}
			}
			_ = renamed
			if !had {
				privileged = true
				// a new member
				if s == nil || s.Id != actor.Id || s.Reply != 0 || cmd != "JOIN" || !registered {
					bad("member-added-by-other", "%s gained member %s through a %s line of another session", ck, nk, cmd)
					continue
				}
				if cb == nil {
					continue // the joiner created the channel
				}
				m.checkJoin(e, in, actor, cb, ck, before, now, bad)
				if ma.Op {
					bad("op-on-join", "joining existing channel %s made the joiner channel operator", ck)
				}
				continue
			}
			if ma.Op != mbm.Op {
				privileged = true
				if !entitledMode {
					bad("op-change-by-non-op", "operator status of %s on %s changed (%v -> %v) although the actor is not entitled", nk, ck, mbm.Op, ma.Op)
				}
			}
		}
	}
	// members removed (kick) - judged on before's channels
	for ck, cb := range before.Chans {
		ca := after.Chans[ck]
		for nk := range cb.Members {
			lk := ircserver.VerifLower(nk)
			still := false
			if ca != nil {
				_, still = isMember(after, ck, lk)
			}
			sb := sessByNick(before, nk)
			if still || sb == nil {
				continue
			}
			if _, alive := after.Sess[[2]uint64{sb.Id, sb.Reply}]; !alive {
				continue // ended sessions were judged above
			}
			if sb.Id == actor.Id && sb.Reply == 0 {
				if actorAfter != nil && cmd == "NICK" {
					if _, ok := isMember(after, ck, ircserver.VerifLower(actorAfter.Nick)); ok {
						continue // renamed
					}
				}
				continue // leaving oneself (PART) needs no privilege
			}
			privileged = true
			if cmd != "KICK" || !registered || !actorIsOp(ck) {
				bad("kick-by-non-op", "%s was removed from %s by a session that is not channel operator there", nk, ck)
			}
		}
	}
	if privileged {
		r.res.Add("privileged_transitions_checked", 1)
	}
}

func (m *obsModel) checkJoin(e *logEntry, in *irc.Message, actor *ircserver.VerifSess, cb *ircserver.VerifChan, ck string, before *priv, now time.Time, bad func(string, string, ...interface{})) {
	// which key did the client supply for this channel?
	key := ""
	if in != nil && len(in.Params) > 0 {
		var keys []string
		if len(in.Params) > 1 {
			keys = strings.Split(in.Params[1], ",")
		}
		for idx, cn := range strings.Split(in.Params[0], ",") {
			if strings.ToLower(cn) == ck {
				if idx < len(keys) {
					key = keys[idx]
				}
				break
			}
		}
	}
	invited := contains(actor.Invited, ck)
	hasI, hasX, hasK := strings.Contains(cb.Modes, "i"), strings.Contains(cb.Modes, "x"), strings.Contains(cb.Modes, "k")
	captchaOK := false
	if hasX && !invited {
		captchaOK = captchaValid(before, actor, key, now)
	}
	if hasI && !invited {
		bad("join-invite-only-uninvited", "joined invite-only channel %s without an invitation", ck)
	}
	if hasX && !invited {
		m.r.res.Add("joins_through_captcha_gate_judged", 1)
	}
	if hasX && !invited && !captchaOK {
		bad("join-captcha-missing", "joined captcha-protected channel %s without invitation or valid captcha (token %q)", ck, trunc(key, 60))
	}
	// bans: against nick!user@host and nick!user@remote-address
	id1 := fmt.Sprintf("%s!%s@robust/0x%x", actor.Nick, actor.User, actor.Id)
	// the address a message arrives from replaces the stored one before the command runs
	addr := actor.RemoteAddr
	if e.Msg != nil && e.Msg.RemoteAddr != "" {
		addr = e.Msg.RemoteAddr
	}
	id2 := actor.Nick + "!" + actor.User + "@" + addr
	for k, mask := range cb.Bans {
		// the address form of a mask that names a session is the one stored alongside; the stored expressions
		// tell which literal it was resolved to at the time the ban was set
		_ = k
		resolved := mask
		if i := strings.Index(mask, "robust/0x"); i >= 0 && k < len(cb.BanRes) {
			// second entry of a pair carries the address-resolved expression; match it as a glob on its unquoted form
			resolved = unquoteRe(cb.BanRes[k])
		}
		if globMatch(mask, id1) || globMatch(mask, id2) || globMatch(resolved, id1) || globMatch(resolved, id2) {
			bad("join-while-banned", "joined %s although ban %q matches %s / %s", ck, mask, id1, id2)
			break
		}
	}
	if hasK && !(hasX && !invited && captchaOK) && key != cb.Key {
		bad("join-wrong-key", "joined keyed channel %s with key %q (key is %q)", ck, key, cb.Key)
	}
	m.r.res.Add("joins_to_existing_checked", 1)
}

// unquoteRe turns the stored expression (QuoteMeta with \* -> .*) back into a glob.
func unquoteRe(re string) string {
	re = strings.ReplaceAll(re, ".*", "*")
	var b strings.Builder
	for k := 0; k < len(re); k++ {
		if re[k] == '\\' && k+1 < len(re) {
			k++
		}
		b.WriteByte(re[k])
	}
	return b.String()
}

func contains(xs []string, x string) bool {
	for _, y := range xs {
		if y == x {
			return true
		}
	}
	return false
}

func sortedMap(m map[string]string) []string {
	var out []string
	for k, v := range m {
		out = append(out, k+"="+v)
	}
	sort.Strings(out)
	return out
}

// ---------------------------------------------------------------------------
// C17

func (m *obsModel) checkLookup(n *e1Node, id uint64, err error) {
	r := m.r
	// what has this node applied?
	createdAt, wasCreated := m.created[id]
	endedAt, hasEnded := m.ended[id]
	appliedID := robust.IdFromRaftIndex(n.applied)
	live := wasCreated && createdAt <= n.applied && (!hasEnded || endedAt > n.applied)
	switch {
	case err == nil:
		if !live {
			r.violate("C17", "lookup-found-dead", "lookup-found-dead", fmt.Sprintf("node %d at index %d: lookup of %d succeeded although the session is not live there", n.idx, n.applied, id-r.offset))
		}
	case err == ircserver.ErrNoSuchSession:
		if live {
			r.violate("C17", "live-session-reported-gone", "live-session-reported-gone", fmt.Sprintf("node %d at index %d: lookup of live session %d answered 'no such session'", n.idx, n.applied, id-r.offset))
		}
		if id > appliedID {
			r.violate("C17", "future-session-reported-gone", "future-session-reported-gone", fmt.Sprintf("node %d at index %d: lookup of id %d, newer than anything applied, answered 'no such session'", n.idx, n.applied, id-r.offset))
		}
	case err == ircserver.ErrSessionNotYetSeen:
		if live {
			r.violate("C17", "live-session-not-seen", "live-session-not-seen", fmt.Sprintf("node %d at index %d: lookup of live session %d answered 'not yet seen'", n.idx, n.applied, id-r.offset))
		}
	default:
		if live {
			r.violate("C17", "lookup-error", "lookup-error", fmt.Sprintf("node %d: lookup of live session %d: %v", n.idx, id-r.offset, err))
		}
	}
}

func (m *obsModel) checkExpiry(now time.Time, msgs []*robust.Message) {
	r := m.r
	p := ircserver.VerifPriv(r.nodes[0].irc)
	// the expiration the applied configuration entries specify (the documented default of ten minutes when
	// the configuration in force does not mention it), not whatever value the server happens to hold
	exp := m.expirationInForceAt(r.nodes[0].applied)
	want := map[uint64]bool{}
	for k, s := range p.Sess {
		if k[1] != 0 {
			continue
		}
		la, ok := m.lastAct[s.Id]
		if !ok {
			la = s.LastActivity
		}
		if now.Sub(la) > exp {
			want[s.Id] = true
		}
	}
	got := map[uint64]bool{}
	for _, mm := range msgs {
		if mm.Session.Reply != 0 {
			r.violate("C17", "pseudo-client-expired", "pseudo-client-expired", fmt.Sprintf("the expiry sweep proposed deleting services pseudo-client %d.%d", mm.Session.Id-r.offset, mm.Session.Reply))
			continue
		}
		if mm.Type != robust.DeleteSession {
			r.violate("C17", "expiry-wrong-message", "expiry-wrong-message", fmt.Sprintf("the expiry sweep proposed a message of type %s", mm.Type))
		}
		got[mm.Session.Id] = true
	}
	if idList(got, r.offset) != idList(want, r.offset) {
		r.violate("C17", "expiry-set-wrong", "expiry-set-wrong", fmt.Sprintf("expiry sweep at %v with expiration %v proposed %s, the idle client sessions are %s", now.UTC(), exp, idList(got, r.offset), idList(want, r.offset)))
	}
	if len(want) > 0 {
		r.res.Add("expiry_nonempty", 1)
	}
}

func (m *obsModel) finalChecks() {}
