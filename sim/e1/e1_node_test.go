//go:debug asynctimerchan=0
package main

// Engine E1 ("fsmsim"), part 1: simulated nodes.
//
// A node owns a directory and the objects main() would create: real FSM, real
// IRC server, real output stream, real LevelDB stores (raftlog, irclog), real
// raft FileSnapshotStore. Consensus is a stub: a single-copy reference log
// hands committed entries to each node with arbitrary lag. Because package
// main keeps ircServer/outputStream/ircStore/raftDir in globals, the driver
// (single goroutine) swaps a node's values in before every FSM call and reads
// them back afterwards.

import (
	"bytes"
	"encoding/json"
	"errors"
	"flag"
	"fmt"
	"io"
	"os"
	"path/filepath"
	"regexp"
	"runtime/debug"
	"sort"
	"strings"
	"time"

	"github.com/golang/protobuf/proto"
	"github.com/hashicorp/raft"
	"github.com/robustirc/rafthttp"
	"github.com/robustirc/robustirc/internal/ircserver"
	"github.com/robustirc/robustirc/internal/outputstream"
	"github.com/robustirc/robustirc/internal/raftstore"
	"github.com/robustirc/robustirc/internal/robust"
	"github.com/robustirc/robustirc/internal/verifsim/verifrt"
)

const e1Network = "robustirc.net"

func firstDiff(a, b string) string {
	la, lb := strings.Split(a, "\n"), strings.Split(b, "\n")
	for k := 0; k < len(la) || k < len(lb); k++ {
		var x, y string
		if k < len(la) {
			x = la[k]
		}
		if k < len(lb) {
			y = lb[k]
		}
		if x != y {
			return fmt.Sprintf("line %d:\n  A: %s\n  B: %s", k+1, x, y)
		}
	}
	return "(equal)"
}

// wellFormed: C15 - one IRC line: <=510 bytes, no CR/LF/NUL, optional well-formed prefix, then a command.
func wellFormed(data string) string {
	if len(data) > 510 {
		return fmt.Sprintf("too-long(%d bytes)", len(data))
	}
	for k := 0; k < len(data); k++ {
		switch data[k] {
		case '\n':
			return "contains-LF"
		case '\r':
			return "contains-CR"
		case 0:
			return "contains-NUL"
		}
	}
	rest := data
	if strings.HasPrefix(rest, ":") {
		sp := strings.IndexByte(rest, ' ')
		if sp < 0 {
			return "prefix-without-command"
		}
		if sp == 1 {
			return "empty-prefix"
		}
		rest = rest[sp+1:]
	}
	rest = strings.TrimLeft(rest, " ")
	if rest == "" {
		return "no-command"
	}
	cmd := rest
	if sp := strings.IndexByte(rest, ' '); sp >= 0 {
		cmd = rest[:sp]
	}
	if cmd == "" || strings.HasPrefix(cmd, ":") {
		return "no-command"
	}
	for _, c := range cmd {
		if !((c >= 'A' && c <= 'Z') || (c >= 'a' && c <= 'z') || (c >= '0' && c <= '9')) {
			return "bad-command"
		}
	}
	return ""
}

type outMsg struct {
	Id, Reply uint64
	Data      string
	Rcpt      []uint64
}

func renderOut(ms []outputstream.Message) []outMsg {
	out := make([]outMsg, len(ms))
	for k, m := range ms {
		var r []uint64
		for id, ok := range m.InterestingFor {
			if ok {
				r = append(r, id)
			}
		}
		sort.Slice(r, func(a, b int) bool { return r[a] < r[b] })
		out[k] = outMsg{m.Id.Id, m.Id.Reply, m.Data, r}
	}
	return out
}

var created003 = regexp.MustCompile(` 003 (\S+) :This server was created .*$`)

func mask003(s string) string {
	return created003.ReplaceAllString(s, " 003 $1 :This server was created <masked>")
}

func outString(ms []outMsg) string {
	var b strings.Builder
	for _, m := range ms {
		fmt.Fprintf(&b, "%d.%d %q -> %v\n", m.Id, m.Reply, mask003(m.Data), m.Rcpt)
	}
	return b.String()
}

// diffClass gives a stable, short label for the first differing dump line (the
// field path without map keys), used as the violation signature.
var keyRe = regexp.MustCompile(`\[[^\]]*\]`)

func diffSig(a, b string) string {
	la, lb := strings.Split(a, "\n"), strings.Split(b, "\n")
	for k := 0; k < len(la) || k < len(lb); k++ {
		var x, y string
		if k < len(la) {
			x = la[k]
		}
		if k < len(lb) {
			y = lb[k]
		}
		if x != y {
			l := x
			if l == "" {
				l = y
			}
			if eq := strings.Index(l, "="); eq > 0 {
				l = l[:eq]
			}
			return keyRe.ReplaceAllString(l, "[]")
		}
	}
	return "equal"
}

func descr(e *logEntry) string {
	if e.Msg == nil {
		return "raft-internal"
	}
	return fmt.Sprintf("%s session=%d %q", e.Msg.Type, e.Msg.Session.Id, trunc(e.Msg.Data, 160))
}

func stackString() string { return string(debug.Stack()) }

func jsonMarshal(v interface{}) ([]byte, error) { return json.Marshal(v) }

func trunc(s string, n int) string {
	if len(s) > n {
		return s[:n] + "…"
	}
	return s
}

func firstLinesOf(s string, n int) string {
	l := strings.Split(s, "\n")
	if len(l) > n {
		l = l[:n]
	}
	return strings.Join(l, "\n")
}

type logEntry struct {
	Index uint64
	Type  raft.LogType
	Data  []byte
	Msg   *robust.Message // nil for raft-internal entries
	TS    time.Time       // timestamp of the message
}

type e1Node struct {
	idx  int
	dir  string
	inc  int // incarnation
	fsm  *FSM
	irc  *ircserver.IRCServer
	out  *outputstream.OutputStream
	ircs *raftstore.LevelDBStore
	logs *raftstore.LevelDBStore
	fss  raft.SnapshotStore
	// applied is the index of the last entry handed to the FSM (raft's lastApplied).
	applied uint64
	// stored is the last index written to the node's raftlog store.
	stored uint64
	// folded: indexes this node's snapshots have folded (no output may remain for them)
	foldedUpTo uint64
	snapCount  int
	// lastSnapIndex is the raft index of the newest successfully persisted snapshot.
	lastSnapIndex   uint64
	dead            bool
	order           *verifrt.Order // how this replica iterates maps (mapseam)
	proto, protoSet bool           // this node's -pre1.0_protobuf flag (set by the engines that vary it)
	restored        bool           // went through FSM.Restore at least once
	cycled          bool           // went through Marshal+Unmarshal at least once
}

func (n *e1Node) use() {
	verifrt.Use(n.order)
	if n.protoSet {
		*useProtobuf = n.proto // -pre1.0_protobuf is a per-process flag: each simulated node has its own
	}
	ircServer = n.irc
	outputStream = n.out
	ircStore = n.ircs
	d := n.dir
	raftDir = &d
}

func (n *e1Node) save() {
	n.irc = ircServer
	n.out = outputStream
	n.ircs = ircStore
}

func e1InitFlags() {
	flag.Set("network_name", e1Network)
}

// start brings up a (new incarnation of a) node from whatever its directory
// holds, mirroring main(): delete old output databases, fresh IRC server,
// open stores without ErrorIfExist, fresh FSM with empty lastSnapshotState.
func (n *e1Node) start() error {
	if err := os.MkdirAll(n.dir, 0700); err != nil {
		return err
	}
	if err := outputstream.DeleteOldDatabases(n.dir); err != nil {
		return err
	}
	n.inc++
	n.irc = ircserver.NewIRCServer(e1Network, time.Now())
	var err error
	n.out, err = outputstream.NewOutputStream(n.dir)
	if err != nil {
		return err
	}
	if n.protoSet {
		*useProtobuf = n.proto
	}
	n.logs, err = raftstore.NewLevelDBStore(filepath.Join(n.dir, "raftlog"), false, *useProtobuf)
	if err != nil {
		return err
	}
	n.ircs, err = raftstore.NewLevelDBStore(filepath.Join(n.dir, "irclog"), false, *useProtobuf)
	if err != nil {
		return err
	}
	n.fsm = &FSM{
		store:             n.logs,
		ircstore:          n.ircs,
		lastSnapshotState: make(map[uint64][]byte),
		ReplaceState: func(*ircserver.IRCServer, *raftstore.LevelDBStore, *outputstream.OutputStream) {
		},
	}
	n.fss, err = raft.NewFileSnapshotStore(n.dir, 5, io.Discard)
	if err != nil {
		return err
	}
	n.applied = 0
	n.dead = false
	return nil
}

// stop closes the node's databases (process exit; memory is lost).
func (n *e1Node) stop() {
	if n.dead {
		return
	}
	n.dead = true
	if n.out != nil {
		n.out.Close()
	}
	if n.fsm != nil && n.fsm.ircstore != nil {
		n.fsm.ircstore.Close()
	}
	if n.logs != nil {
		n.logs.Close()
	}
}

// store writes an entry to the node's raft log store (what raft does before
// the entry can be committed).
func (n *e1Node) store(e *logEntry) error {
	if e.Index <= n.stored {
		return nil
	}
	if err := n.logs.StoreLog(&raft.Log{Index: e.Index, Term: 1, Type: e.Type, Data: e.Data}); err != nil {
		return err
	}
	n.stored = e.Index
	return nil
}

type applyOutcome struct {
	ret      interface{}
	panicked interface{}
	stack    string
}

// applyEntry hands one committed entry to the node's FSM.
func (n *e1Node) applyEntry(e *logEntry) (out applyOutcome) {
	n.use()
	defer n.save()
	// the entry is read back from the node's own log store, as raft does
	var l raft.Log
	if err := n.logs.GetLog(e.Index, &l); err != nil {
		out.panicked = fmt.Sprintf("harness: GetLog(%d): %v", e.Index, err)
		return
	}
	defer func() {
		if r := recover(); r != nil {
			out.panicked = r
			out.stack = stackString()
		}
	}()
	out.ret = n.fsm.Apply(&l)
	n.applied = e.Index
	return out
}

type failingSink struct {
	raft.SnapshotSink
	failAt int
	n      int
}

func (f *failingSink) Write(p []byte) (int, error) {
	if f.failAt >= 0 && f.n+len(p) > f.failAt {
		k := f.failAt - f.n
		if k > 0 {
			f.SnapshotSink.Write(p[:k])
		}
		f.n = f.failAt
		return k, errors.New("injected snapshot sink write error")
	}
	f.n += len(p)
	return f.SnapshotSink.Write(p)
}

type snapResult struct {
	err       error
	persisted bool
	first     uint64
	last      uint64
	end       time.Time
	bytes     int
}

// snapshot runs FSM.Snapshot with compaction time T and persists it. failAt<0:
// no failure; otherwise the sink fails after failAt bytes and is cancelled.
// skipPersist models a crash between Snapshot() and Persist.
func (n *e1Node) snapshot(T time.Time, failAt int, skipPersist bool) (res snapResult) {
	return n.snapshotWith(T, failAt, skipPersist, nil)
}

// snapshotWith: between (if set) runs after FSM.Snapshot() returned and before Persist - raft persists a
// snapshot in another goroutine while the FSM goes on applying entries.
func (n *e1Node) snapshotWith(T time.Time, failAt int, skipPersist bool, between func()) (res snapResult) {
	n.use()
	defer n.save()
	*canaryCompactionStart = T.UnixNano()
	snap, err := n.fsm.Snapshot()
	if err != nil {
		res.err = err
		return
	}
	snapIndex := n.applied
	if between != nil {
		n.save()
		between()
		n.use()
	}
	rs := snap.(*robustSnapshot)
	res.first, res.last, res.end = rs.firstIndex, rs.lastIndex, rs.compactionEnd
	if skipPersist {
		return
	}
	// raft names snapshots term-index-milliseconds: make sure two snapshots never share a name
	time.Sleep(2 * time.Millisecond)
	sink, err := n.fss.Create(1, snapIndex, 1, raft.Configuration{}, 0, &rafthttp.HTTPTransport{})
	if err != nil {
		res.err = err
		return
	}
	fs := &failingSink{SnapshotSink: sink, failAt: failAt}
	if err := snap.Persist(fs); err != nil {
		sink.Cancel()
		res.err = err
		res.bytes = fs.n
		return
	}
	res.bytes = fs.n
	if err := sink.Close(); err != nil {
		res.err = err
		return
	}
	snap.Release()
	res.persisted = true
	n.lastSnapIndex = snapIndex
	n.snapCount++
	return
}

// newestSnapshot returns the bytes and raft index of the newest loadable snapshot.
func (n *e1Node) newestSnapshot() ([]byte, uint64, bool) {
	metas, err := n.fss.List()
	if err != nil {
		return nil, 0, false
	}
	for _, m := range metas {
		_, rc, err := n.fss.Open(m.ID)
		if err != nil {
			continue
		}
		b, err := io.ReadAll(rc)
		rc.Close()
		if err != nil {
			continue
		}
		return b, m.Index, true
	}
	return nil, 0, false
}

// restoreFrom feeds snapshot bytes to FSM.Restore (raft: restoreSnapshot at
// start-up, or installSnapshot on a lagging follower).
func (n *e1Node) restoreFrom(b []byte, index uint64) (err error, panicked interface{}, stack string) {
	n.use()
	defer n.save()
	defer func() {
		if r := recover(); r != nil {
			panicked = r
			stack = stackString()
		}
	}()
	err = n.fsm.Restore(io.NopCloser(bytes.NewReader(b)))
	if err == nil {
		n.applied = index
	}
	return
}

// installSnapshot copies another node's snapshot into this node's store (what
// raft's installSnapshot does) and restores from it.
func (n *e1Node) installSnapshot(b []byte, index uint64) (error, interface{}, string) {
	time.Sleep(2 * time.Millisecond)
	sink, err := n.fss.Create(1, index, 1, raft.Configuration{}, 0, &rafthttp.HTTPTransport{})
	if err != nil {
		return err, nil, ""
	}
	if _, err := sink.Write(b); err != nil {
		sink.Cancel()
		return err, nil, ""
	}
	if err := sink.Close(); err != nil {
		return err, nil, ""
	}
	n.lastSnapIndex = index
	return n.restoreFrom(b, index)
}

// irclogIndexes lists the indexes currently held by the node's irclog.
func (n *e1Node) irclogIndexes() []uint64 {
	first, _ := n.fsm.ircstore.FirstIndex()
	last, _ := n.fsm.ircstore.LastIndex()
	var out []uint64
	if first == 0 {
		return out
	}
	it := n.fsm.ircstore.GetBulkIterator(first, last+1)
	defer it.Release()
	for ok := it.First(); ok; ok = it.Next() {
		k := it.Key()
		if len(k) == 8 {
			var v uint64
			for _, c := range k {
				v = v<<8 | uint64(c)
			}
			out = append(out, v)
		}
	}
	sort.Slice(out, func(a, b int) bool { return out[a] < out[b] })
	return out
}

func encodeMsg(m *robust.Message) []byte {
	if *useProtobuf {
		b, err := proto.Marshal(m.ProtoMessage())
		if err != nil {
			panic(err)
		}
		return append([]byte{'p'}, b...)
	}
	// the JSON form as networks wrote it into their logs before protobuf (literal keys, not the current struct
	// tags: an entry written by an older binary has to keep its meaning)
	type id struct{ Id, Reply uint64 }
	legacy := map[string]interface{}{
		"Id":       id{m.Id.Id, m.Id.Reply},
		"Session":  id{m.Session.Id, m.Session.Reply},
		"Type":     int(m.Type),
		"Data":     m.Data,
		"UnixNano": m.UnixNano,
	}
	if len(m.Servers) > 0 {
		legacy["Servers"] = m.Servers
	}
	if m.Currentmaster != "" {
		legacy["Currentmaster"] = m.Currentmaster
	}
	if m.ClientMessageId != 0 {
		legacy["ClientMessageId"] = m.ClientMessageId
	}
	if m.Revision != 0 {
		legacy["Revision"] = m.Revision
	}
	if m.RemoteAddr != "" {
		legacy["RemoteAddr"] = m.RemoteAddr
	}
	b, err := jsonMarshal(legacy)
	if err != nil {
		panic(err)
	}
	return b
}
