package ircserver

// White-box probes used by the simulation engines. This file lives in /verif
// and is added to package ircserver at build time with `go test -overlay`;
// it is not part of /repo.

import (
	"fmt"
	"reflect"
	"regexp"
	"sort"
	"strings"
	"sync"
	"time"
)

// VerifDump renders every field of the server state (including unexported
// ones) canonically: maps sorted by key, nil and empty containers alike, times
// by (UnixNano, IsZero). It walks by reflection so that a field added later is
// included automatically. Fields whose value is allowed to differ between
// replicas are listed in skip.
// VerifThrottle renders the node-local throttling state VerifDump leaves out.
func VerifThrottle(i *IRCServer) string {
	i.sessionsMu.RLock()
	defer i.sessionsMu.RUnlock()
	var l []string
	for id, s := range i.sessions {
		l = append(l, fmt.Sprintf("%d.%d:%d", id.Id, id.Reply, s.throttlingExponent))
	}
	sort.Strings(l)
	return strings.Join(l, " ")
}

func VerifDump(i *IRCServer) string {
	i.sessionsMu.RLock()
	defer i.sessionsMu.RUnlock()
	i.ConfigMu.RLock()
	defer i.ConfigMu.RUnlock()
	var b strings.Builder
	dumpValue(&b, reflect.ValueOf(i).Elem(), "IRCServer", 0)
	return b.String()
}

var (
	timeType   = reflect.TypeOf(time.Time{})
	regexpType = reflect.TypeOf(&regexp.Regexp{})
	rwmuType   = reflect.TypeOf(&sync.RWMutex{})
)

// skip: path suffixes that are node-local by design (DESIGN §3.8).
func skipField(path string) bool {
	switch {
	case strings.HasSuffix(path, ".ServerCreation"): // tolerated: numeric 003 only
		return true
	case strings.HasSuffix(path, ".throttlingExponent"): // mutated by the HTTP path of one node
		return true
	case strings.HasSuffix(path, "Mu"):
		return true
	}
	return false
}

func dumpValue(b *strings.Builder, v reflect.Value, path string, depth int) {
	if depth > 12 {
		fmt.Fprintf(b, "%s=<depth>\n", path)
		return
	}
	if !v.IsValid() {
		fmt.Fprintf(b, "%s=<invalid>\n", path)
		return
	}
	t := v.Type()
	switch {
	case t == timeType:
		tm := timeOf(v)
		fmt.Fprintf(b, "%s=time(%d,zero=%v)\n", path, tm.UnixNano(), tm.IsZero())
		return
	case t == regexpType:
		if v.IsNil() {
			fmt.Fprintf(b, "%s=re(nil)\n", path)
		} else {
			re := (*regexp.Regexp)(v.UnsafePointer())
			fmt.Fprintf(b, "%s=re(%q)\n", path, re.String())
		}
		return
	case t == rwmuType:
		return
	}
	switch v.Kind() {
	case reflect.Ptr, reflect.Interface:
		if v.IsNil() {
			fmt.Fprintf(b, "%s=nil\n", path)
			return
		}
		dumpValue(b, v.Elem(), path, depth+1)
	case reflect.Struct:
		for k := 0; k < v.NumField(); k++ {
			p := path + "." + t.Field(k).Name
			if skipField(p) {
				continue
			}
			dumpValue(b, v.Field(k), p, depth+1)
		}
	case reflect.Map:
		type kv struct {
			k string
			v reflect.Value
		}
		var kvs []kv
		iter := v.MapRange()
		for iter.Next() {
			kvs = append(kvs, kv{fmt.Sprintf("%v", keyString(iter.Key())), iter.Value()})
		}
		sort.Slice(kvs, func(a, c int) bool { return kvs[a].k < kvs[c].k })
		fmt.Fprintf(b, "%s=map(len=%d)\n", path, len(kvs))
		for _, e := range kvs {
			dumpValue(b, e.v, path+"["+e.k+"]", depth+1)
		}
	case reflect.Slice, reflect.Array:
		if v.Kind() == reflect.Array && t.Elem().Kind() == reflect.Bool {
			// mode arrays: render set indexes only
			var on []string
			for k := 0; k < v.Len(); k++ {
				if v.Index(k).Bool() {
					on = append(on, fmt.Sprint(k))
				}
			}
			fmt.Fprintf(b, "%s=bools{%s}\n", path, strings.Join(on, ","))
			return
		}
		if t.Elem().Kind() == reflect.Uint8 && v.Kind() == reflect.Slice {
			fmt.Fprintf(b, "%s=bytes(%x)\n", path, v.Bytes())
			return
		}
		if strings.HasSuffix(path, ".serverSessions") {
			// a set kept in a slice: order is not state
			var ids []string
			for k := 0; k < v.Len(); k++ {
				ids = append(ids, fmt.Sprint(v.Index(k).Uint()))
			}
			sort.Strings(ids)
			// duplicates do not matter either
			ids = uniq(ids)
			fmt.Fprintf(b, "%s=set{%s}\n", path, strings.Join(ids, ","))
			return
		}
		fmt.Fprintf(b, "%s=list(len=%d)\n", path, v.Len())
		for k := 0; k < v.Len(); k++ {
			dumpValue(b, v.Index(k), fmt.Sprintf("%s[%d]", path, k), depth+1)
		}
	case reflect.String:
		fmt.Fprintf(b, "%s=%q\n", path, v.String())
	case reflect.Bool:
		fmt.Fprintf(b, "%s=%v\n", path, v.Bool())
	case reflect.Int, reflect.Int8, reflect.Int16, reflect.Int32, reflect.Int64:
		fmt.Fprintf(b, "%s=%d\n", path, v.Int())
	case reflect.Uint, reflect.Uint8, reflect.Uint16, reflect.Uint32, reflect.Uint64, reflect.Uintptr:
		fmt.Fprintf(b, "%s=%d\n", path, v.Uint())
	case reflect.Float32, reflect.Float64:
		fmt.Fprintf(b, "%s=%v\n", path, v.Float())
	case reflect.Func, reflect.Chan, reflect.UnsafePointer:
		// not state
	default:
		fmt.Fprintf(b, "%s=<kind %s>\n", path, v.Kind())
	}
}

// VerifTypePaths lists, at the level of types, every path VerifDump can produce (map keys and slice indexes
// rendered as []). The harness keeps a frozen copy of this list: a state difference in a path that is not
// in the frozen copy belongs to a field added to the code later.
func VerifTypePaths() []string {
	seen := map[string]bool{}
	var out []string
	var walk func(t reflect.Type, path string, depth int)
	walk = func(t reflect.Type, path string, depth int) {
		if depth > 12 {
			return
		}
		if t == timeType || t == regexpType {
			if !seen[path] {
				seen[path] = true
				out = append(out, path)
			}
			return
		}
		if t == rwmuType {
			return
		}
		switch t.Kind() {
		case reflect.Ptr:
			walk(t.Elem(), path, depth+1)
		case reflect.Struct:
			for k := 0; k < t.NumField(); k++ {
				p := path + "." + t.Field(k).Name
				if skipField(p) {
					continue
				}
				walk(t.Field(k).Type, p, depth+1)
			}
		case reflect.Map:
			if !seen[path] {
				seen[path] = true
				out = append(out, path)
			}
			walk(t.Elem(), path+"[]", depth+1)
		case reflect.Slice, reflect.Array:
			if !seen[path] {
				seen[path] = true
				out = append(out, path)
			}
			if t.Elem().Kind() != reflect.Bool && t.Elem().Kind() != reflect.Uint8 {
				walk(t.Elem(), path+"[]", depth+1)
			}
		case reflect.Func, reflect.Chan, reflect.UnsafePointer, reflect.Interface:
		default:
			if !seen[path] {
				seen[path] = true
				out = append(out, path)
			}
		}
	}
	walk(reflect.TypeOf(IRCServer{}), "IRCServer", 0)
	sort.Strings(out)
	return out
}

func uniq(xs []string) []string {
	var out []string
	for i, x := range xs {
		if i == 0 || xs[i-1] != x {
			out = append(out, x)
		}
	}
	return out
}

func keyString(k reflect.Value) string {
	switch k.Kind() {
	case reflect.String:
		return k.String()
	case reflect.Struct:
		var parts []string
		for i := 0; i < k.NumField(); i++ {
			parts = append(parts, fmt.Sprintf("%020v", fieldScalar(k.Field(i))))
		}
		return strings.Join(parts, ".")
	default:
		return fmt.Sprintf("%020v", fieldScalar(k))
	}
}

func fieldScalar(v reflect.Value) interface{} {
	switch v.Kind() {
	case reflect.Uint, reflect.Uint8, reflect.Uint16, reflect.Uint32, reflect.Uint64:
		return v.Uint()
	case reflect.Int, reflect.Int8, reflect.Int16, reflect.Int32, reflect.Int64:
		return v.Int()
	case reflect.String:
		return v.String()
	}
	return "?"
}

func timeOf(v reflect.Value) time.Time {
	// v may be unexported: copy through an addressable clone
	c := reflect.New(v.Type()).Elem()
	if v.CanInterface() {
		return v.Interface().(time.Time)
	}
	if v.CanAddr() {
		return *(*time.Time)(v.Addr().UnsafePointer())
	}
	_ = c
	// fall back: unexported non-addressable (e.g. map element): read fields wall/ext/loc is not portable;
	// such values are reached through pointers in this code base, so this is not expected.
	return time.Time{}
}

// VerifSessionInfo is a plain copy of what the checker needs to know about a
// session, taken under the server's lock.
type VerifSessionInfo struct {
	Id, Reply    uint64
	Nick         string
	LoggedIn     bool
	Server       bool
	Operator     bool
	Deleted      bool
	Channels     []string
	LastActivity time.Time
	LastClientID uint64
}

func VerifSessions(i *IRCServer) []VerifSessionInfo {
	i.sessionsMu.RLock()
	defer i.sessionsMu.RUnlock()
	var out []VerifSessionInfo
	for id, s := range i.sessions {
		var chans []string
		for c := range s.Channels {
			chans = append(chans, string(c))
		}
		sort.Strings(chans)
		out = append(out, VerifSessionInfo{Id: id.Id, Reply: id.Reply, Nick: s.Nick, LoggedIn: s.loggedIn, Server: s.Server,
			Operator: s.Operator, Deleted: s.deleted, Channels: chans, LastActivity: s.LastActivity, LastClientID: s.lastClientMessageId})
	}
	sort.Slice(out, func(a, b int) bool {
		if out[a].Id != out[b].Id {
			return out[a].Id < out[b].Id
		}
		return out[a].Reply < out[b].Reply
	})
	return out
}

// independent case mapping (RFC 2812): ASCII letters case-insensitive, []\ ~ {}|
func verifLower(s string) string {
	b := []byte(s)
	for k, c := range b {
		switch {
		case c >= 'A' && c <= 'Z':
			b[k] = c + 32
		case c == '[':
			b[k] = '{'
		case c == ']':
			b[k] = '}'
		case c == '\\':
			b[k] = '|'
		}
	}
	return string(b)
}

func verifChanLower(s string) string { return strings.ToLower(s) }

func verifValidNick(n string) bool {
	if len(n) == 0 || len(n) > 31 {
		return false
	}
	isLetter := func(c byte) bool { return (c >= 'A' && c <= 'Z') || (c >= 'a' && c <= 'z') }
	isSpecial := func(c byte) bool { return (c >= 0x5B && c <= 0x60) || (c >= 0x7B && c <= 0x7D) }
	isDigit := func(c byte) bool { return c >= '0' && c <= '9' }
	if !isLetter(n[0]) && !isSpecial(n[0]) {
		return false
	}
	for k := 1; k < len(n); k++ {
		c := n[k]
		if !isLetter(c) && !isSpecial(c) && !isDigit(c) && c != '-' {
			return false
		}
	}
	return true
}

func verifValidChan(c string) bool {
	if len(c) == 0 || c[0] != '#' || len(c) > 33 {
		return false
	}
	for k := 1; k < len(c); k++ {
		switch c[k] {
		case 0, 7, '\r', '\n', ' ', ',', ':':
			return false
		}
	}
	return true
}

// VerifInvariants walks the three indexes (by id, by nickname, per channel)
// and returns one line per violated invariant of C14 (empty = consistent).
// Limits are checked by the caller at creation events.
func VerifInvariants(i *IRCServer) []string {
	i.sessionsMu.RLock()
	defer i.sessionsMu.RUnlock()
	var bad []string
	addf := func(f string, a ...interface{}) { bad = append(bad, fmt.Sprintf(f, a...)) }

	owner := map[string]*Session{}
	var ids []string
	byID := map[string]*Session{}
	for id, s := range i.sessions {
		k := fmt.Sprintf("%020d.%020d", id.Id, id.Reply)
		ids = append(ids, k)
		byID[k] = s
	}
	sort.Strings(ids)
	for _, k := range ids {
		s := byID[k]
		if s.deleted {
			addf("lingering: session %s is marked deleted but still stored after the entry", k)
			continue
		}
		if s.Nick == "" {
			if len(s.Channels) > 0 {
				addf("nickless-member: session %s has no nickname but lists channels", k)
			}
			continue
		}
		if !verifValidNick(s.Nick) {
			addf("invalid-nick: session %s owns syntactically invalid nickname %q", k, s.Nick)
		}
		l := verifLower(s.Nick)
		if o, dup := owner[l]; dup {
			addf("duplicate-nick: sessions %d.%d and %d.%d own nicknames equal under IRC case mapping (%q, %q)", o.Id.Id, o.Id.Reply, s.Id.Id, s.Id.Reply, o.Nick, s.Nick)
		}
		owner[l] = s
		// reachable by its current nickname
		if got, ok := i.nicks[NickToLower(s.Nick)]; !ok || got != s {
			addf("unreachable: live session %s is not reachable by its current nickname %q", k, s.Nick)
		}
	}
	// the nickname index must not contain strangers
	var nickKeys []string
	for n := range i.nicks {
		nickKeys = append(nickKeys, string(n))
	}
	sort.Strings(nickKeys)
	for _, n := range nickKeys {
		s := i.nicks[lcNick(n)]
		if s == nil {
			addf("nick-index-nil: nickname index entry %q is nil", n)
			continue
		}
		if cur, ok := i.sessions[s.Id]; !ok || cur != s {
			addf("nick-index-dead: nickname %q is owned by a session (%d.%d) that is not live", n, s.Id.Id, s.Id.Reply)
		} else if n != "" && verifLower(s.Nick) != verifLower(n) {
			addf("nick-index-stale: nickname index entry %q points to session %d.%d whose nickname is %q", n, s.Id.Id, s.Id.Reply, s.Nick)
		}
	}
	var chanKeys []string
	for c := range i.channels {
		chanKeys = append(chanKeys, string(c))
	}
	sort.Strings(chanKeys)
	for _, ck := range chanKeys {
		c := i.channels[lcChan(ck)]
		if !verifValidChan(c.name) {
			addf("invalid-channel: channel name %q is syntactically invalid", c.name)
		}
		if verifChanLower(c.name) != ck {
			addf("channel-key: channel %q stored under key %q", c.name, ck)
		}
		if len(c.nicks) == 0 {
			addf("empty-channel: channel %q exists without members", c.name)
		}
		var ms []string
		for n := range c.nicks {
			ms = append(ms, string(n))
		}
		sort.Strings(ms)
		for _, n := range ms {
			if c.nicks[lcNick(n)] == nil {
				addf("member-nil: channel %q lists member %q with nil status", c.name, n)
			}
			s, ok := i.nicks[lcNick(n)]
			if !ok || s == nil {
				addf("member-dead: channel %q lists member %q which is no live nickname", c.name, n)
				continue
			}
			if cur, ok := i.sessions[s.Id]; !ok || cur != s || s.deleted {
				addf("member-dead: channel %q lists member %q whose session is not live", c.name, n)
				continue
			}
			if verifLower(s.Nick) != verifLower(n) {
				addf("member-stale: channel %q lists member %q but that session's nickname is %q", c.name, n, s.Nick)
			}
			if !s.Channels[lcChan(ck)] {
				addf("asymmetric: channel %q lists %q but the session does not list the channel", c.name, s.Nick)
			}
		}
	}
	for _, k := range ids {
		s := byID[k]
		if s.deleted {
			continue
		}
		var cs []string
		for c := range s.Channels {
			cs = append(cs, string(c))
		}
		sort.Strings(cs)
		for _, cn := range cs {
			c, ok := i.channels[lcChan(cn)]
			if !ok {
				addf("asymmetric: session %q lists channel %q which does not exist", s.Nick, cn)
				continue
			}
			if _, ok := c.nicks[NickToLower(s.Nick)]; !ok {
				addf("asymmetric: session %q lists channel %q but the channel does not list it", s.Nick, cn)
			}
		}
	}
	return bad
}

// VerifCounts returns (#sessions, #channels).
func VerifCounts(i *IRCServer) (int, int) {
	i.sessionsMu.RLock()
	defer i.sessionsMu.RUnlock()
	return len(i.sessions), len(i.channels)
}

// ---------------------------------------------------------------------------
// Privileged-state snapshot for the C13 transition validator.

type VerifMember struct {
	Op bool
}

type VerifChan struct {
	Name      string
	Members   map[string]VerifMember // key: nickname as stored (lower-cased by the server)
	Modes     string                 // set mode letters, sorted
	Key       string
	Bans      []string // masks, in order (a mask may occur twice: identity and address form)
	BanRes    []string // the regular expressions as stored
	Topic     string
	TopicNick string
	TopicSet  bool
}

type VerifSess struct {
	Id, Reply         uint64
	Nick, User        string
	LoggedIn          bool
	Oper              bool
	Server            bool
	Invited           []string
	Pass              string
	RemoteAddr        string
	LastActivity      time.Time
	LastSolvedCaptcha time.Time
	Created           int64
	Modes             string
	Auth              string
	Channels          []string
	LastClientID      uint64
}

type VerifPrivState struct {
	Chans       map[string]*VerifChan // key: lower-cased name as stored
	Sess        map[[2]uint64]*VerifSess
	Holds       map[string][2]int64 // nick -> (added unixnano, duration)
	Operators   [][2]string
	ServicePws  []string
	Banned      map[string]string
	CaptchaKey  []byte
	CaptchaURL  string
	CaptchaReq  bool
	MaxSessions uint64
	MaxChannels uint64
	Expiration  time.Duration
	Revision    uint64
	Origins     []string
	Bridges     map[string]string
}

func VerifPriv(i *IRCServer) *VerifPrivState {
	i.sessionsMu.RLock()
	defer i.sessionsMu.RUnlock()
	i.ConfigMu.RLock()
	defer i.ConfigMu.RUnlock()
	st := &VerifPrivState{Chans: map[string]*VerifChan{}, Sess: map[[2]uint64]*VerifSess{}, Holds: map[string][2]int64{}, Banned: map[string]string{}, Bridges: map[string]string{}}
	for k, c := range i.channels {
		vc := &VerifChan{Name: c.name, Members: map[string]VerifMember{}, Key: c.key, Topic: c.topic, TopicNick: c.topicNick, TopicSet: !c.topicTime.IsZero()}
		for n, p := range c.nicks {
			vc.Members[string(n)] = VerifMember{Op: p != nil && p[chanop]}
		}
		for m := 'A'; m < 'z'; m++ {
			if c.modes[m] {
				vc.Modes += string(m)
			}
		}
		for _, b := range c.bans {
			vc.Bans = append(vc.Bans, b.pattern)
			vc.BanRes = append(vc.BanRes, b.re.String())
		}
		st.Chans[string(k)] = vc
	}
	for id, s := range i.sessions {
		vs := &VerifSess{Id: id.Id, Reply: id.Reply, Nick: s.Nick, User: s.Username, LoggedIn: s.loggedIn, Oper: s.Operator, Server: s.Server,
			Pass: s.Pass, RemoteAddr: s.RemoteAddr, LastActivity: s.LastActivity, LastSolvedCaptcha: s.LastSolvedCaptcha, Created: s.Created, Auth: s.auth, LastClientID: s.lastClientMessageId}
		for c := range s.invitedTo {
			vs.Invited = append(vs.Invited, string(c))
		}
		sort.Strings(vs.Invited)
		for c := range s.Channels {
			vs.Channels = append(vs.Channels, string(c))
		}
		sort.Strings(vs.Channels)
		for m := 'A'; m < 'z'; m++ {
			if s.modes[m] {
				vs.Modes += string(m)
			}
		}
		st.Sess[[2]uint64{id.Id, id.Reply}] = vs
	}
	for n, h := range i.svsholds {
		st.Holds[string(n)] = [2]int64{h.added.UnixNano(), int64(h.duration)}
	}
	for _, o := range i.Config.IRC.Operators {
		st.Operators = append(st.Operators, [2]string{o.Name, o.Password})
	}
	for _, s := range i.Config.IRC.Services {
		st.ServicePws = append(st.ServicePws, s.Password)
	}
	for k, v := range i.Config.Banned {
		st.Banned[k] = v
	}
	for k, v := range i.Config.TrustedBridges {
		st.Bridges[k] = v
	}
	for k, v := range i.Config.WhitelistedOrigins {
		if v {
			st.Origins = append(st.Origins, k)
		}
	}
	sort.Strings(st.Origins)
	st.CaptchaKey = append([]byte(nil), i.Config.CaptchaHMACSecret...)
	st.CaptchaURL = i.Config.CaptchaURL
	st.CaptchaReq = i.Config.CaptchaRequiredForLogin
	st.MaxSessions = i.Config.MaxSessions
	st.MaxChannels = i.Config.MaxChannels
	st.Expiration = time.Duration(i.Config.SessionExpiration)
	st.Revision = i.Config.Revision
	return st
}

// VerifLower exposes the checker's own case mapping.
func VerifLower(s string) string { return verifLower(s) }
