package main

// Engine E1, part 2: scenario format and generator (workload grammar).

import (
	"crypto/hmac"
	"crypto/sha256"
	"encoding/base64"
	"encoding/json"
	"fmt"
	"strings"

	"github.com/robustirc/robustirc/internal/verifsim/core"
)

type e1Step struct {
	K string `json:"k"`
	// log-producing steps
	S    int    `json:"s,omitempty"`    // session ordinal ({nicka}/{nickb} in Data: current nickname of this / the previous step's session)
	Data string `json:"d,omitempty"`    // IRC line / quit message / TOML
	Cmid uint64 `json:"cmid,omitempty"` // explicit client message id (0 = automatic)
	Addr string `json:"addr,omitempty"`
	Rev  int    `json:"rev,omitempty"` // config: revision offset from the current one (0 = correct next revision)
	// schedule / fault steps
	N    int   `json:"n,omitempty"`    // node
	From int   `json:"from,omitempty"` // source node of an installed snapshot
	Cnt  int   `json:"cnt,omitempty"`  // apply: how many entries
	Ms   int64 `json:"ms,omitempty"`   // advance: virtual milliseconds
	Frac int   `json:"frac,omitempty"` // snap: which part of the node's log copy shall be older than the horizon (0..100, 101 = everything and more, -1 = use the clock)
	Fail int   `json:"fail,omitempty"` // snap: sink fails after this many bytes (0 = no failure)
	Skip bool  `json:"skip,omitempty"` // snap: crash between Snapshot() and Persist (combined with a later restart)
	Mid  int   `json:"mid,omitempty"`  // snap: entries the node applies between Snapshot() and Persist
	// captcha minted at execution time for the acting session
	Captcha string `json:"captcha,omitempty"` // "", "ok", "old", "mut", "wrongpurpose"
	// Svc: the line is drawn from the services grammar; it is only sent if the session it resolves to is an
	// authenticated link at that moment (and client-grammar lines are never sent on a link), so that deleting
	// steps while shrinking cannot turn a conforming history into a non-conforming one.
	Svc bool `json:"svc,omitempty"`
}

type e1Scenario struct {
	Engine   string   `json:"engine"`
	Prop     string   `json:"prop"`
	Seed     uint64   `json:"seed"`
	Nodes    int      `json:"nodes"`
	Offset   bool     `json:"offset"`   // production message-id offset instead of 0
	Trailing int      `json:"trailing"` // raft TrailingLogs stand-in
	JSONEnc  bool     `json:"jsonenc"`  // legacy JSON encoding of messages, stores and snapshots
	Steps    []e1Step `json:"steps"`
}

const (
	e1OperName = "root"
	e1OperPass = "opw"
	e1SvcPass  = "spw"
	e1HMACHex  = "000102030405060708090a0b0c0d0e0f"
)

var e1HMAC = []byte{0, 1, 2, 3, 4, 5, 6, 7, 8, 9, 10, 11, 12, 13, 14, 15}

func e1Config(g *core.Stream, variant int) string {
	var b strings.Builder
	exp := []string{"10m0s", "10m0s", "1m0s", "30m0s", "2h0m0s"}[g.Intn(5)]
	if g.Chance(1, 12) {
		// a configuration that does not mention the expiration at all (the documented default applies)
	} else {
		fmt.Fprintf(&b, "SessionExpiration = %q\n", exp)
	}
	fmt.Fprintf(&b, "PostMessageCooloff = \"0s\"\n")
	if variant != 1 {
		secret := e1HMACHex
		if g.Chance(1, 10) {
			secret = "" // set but empty
		}
		url := "http://captcha.example/"
		if g.Chance(1, 12) {
			url = g.Pick([]string{"http://[::1", "%zz", "://", "http://captcha.example/%", "captcha", "http://a b/"}) // accepted by the TOML check
		}
		fmt.Fprintf(&b, "CaptchaURL = %q\nCaptchaHMACSecret = %q\n", url, secret)
	}
	if g.Chance(1, 8) {
		fmt.Fprintf(&b, "CaptchaRequiredForLogin = true\n")
	}
	if g.Chance(1, 4) {
		fmt.Fprintf(&b, "MaxSessions = %d\n", g.Range(3, 9))
	}
	if g.Chance(1, 4) {
		fmt.Fprintf(&b, "MaxChannels = %d\n", g.Range(1, 4))
	}
	fmt.Fprintf(&b, "[IRC]\n")
	if variant != 2 {
		fmt.Fprintf(&b, "[[IRC.Operators]]\nName = %q\nPassword = %q\n", e1OperName, e1OperPass)
	}
	if g.Chance(1, 3) {
		fmt.Fprintf(&b, "[[IRC.Operators]]\nName = \"second\"\nPassword = \"pw2\"\n")
	}
	fmt.Fprintf(&b, "[[IRC.Services]]\nPassword = %q\n", e1SvcPass)
	fmt.Fprintf(&b, "[TrustedBridges]\n\"bridgesecret\" = \"bridge1\"\n")
	if g.Chance(1, 2) {
		fmt.Fprintf(&b, "[WhitelistedOrigins]\n\"https://web.example\" = true\n")
		if g.Chance(1, 2) {
			// several origins, some of them differing only in case or a trailing slash, allowed and refused
			for _, o := range []string{"https://Web.example", "https://web.example/", "https://chat.example", "https://CHAT.example/", "http://web.example"} {
				if g.Chance(1, 2) {
					fmt.Fprintf(&b, "%q = %v\n", o, g.Chance(1, 2))
				}
			}
		}
	}
	return b.String()
}

var (
	e1Nicks   = []string{"alice", "Alice", "bob", "b[ob]", "b{ob}", "carol", "dave", "eve", "x\\y", "x|y", "mallory", "trent"}
	e1BadNick = []string{"", "1bad", "NickServ", "chanserv", "averyveryveryverylongnicknamethatexceeds30", "a b", "é", "a,b", strings.Repeat("n", 480), "x" + strings.Repeat("a", 500)}
	e1Chans   = []string{"#a", "#A", "#b", "#Chaos", "#chaos", "#k", "#x"}
	e1BadChan = []string{"", "#", "&loc", "a", "#a b", "#toolongchannelname-0123456789012345678901234567890", "#a\x07"}
	e1Keys    = []string{"k1", "k2", "", "k1 "}
	e1SvcNick = []string{"ChanServ", "NickServ", "OperServ", "BotServ", "Enforcer", "mallory", "eve"} // the last two are ordinary nicknames a client may take once the bot is gone
	e1Texts   = []string{"hello", "hi there", ":)", "", " ", "a\rQUIT :x", "x\x00y", strings.Repeat("A", 600), "ünïcödé " + strings.Repeat("é", 260), ":lead", "\x01ACTION waves\x01"}
	e1Addrs   = []string{"", "10.0.0.1", "10.0.0.2", "192.0.2.7", "2001:db8::1"}
)

func pickChanList(g *core.Stream) string {
	n := 1
	if g.Chance(1, 5) {
		n = g.Range(2, 4)
	}
	var cs []string
	for i := 0; i < n; i++ {
		if g.Chance(1, 12) {
			cs = append(cs, g.Pick(e1BadChan))
		} else {
			cs = append(cs, g.Pick(e1Chans))
		}
	}
	return strings.Join(cs, ",")
}

func pickNick(g *core.Stream) string {
	switch g.Intn(12) {
	case 0:
		return g.Pick(e1BadNick)
	case 1:
		return g.Pick(e1SvcNick)
	default:
		return g.Pick(e1Nicks)
	}
}

func pickMask(g *core.Stream) string {
	switch g.Intn(7) {
	case 0:
		return "*!*@*"
	case 1:
		return pickNick(g) + "!*@*"
	case 2:
		return "*!*@10.0.0.1"
	case 3:
		if g.Intn(2) == 0 {
			// the host of an existing session ({sida} = acting session, {sidb} = the other one, in hex)
			return g.Pick([]string{"*!*@robust/0x{sidb}", "*!*@robust/0x{sida}", "*!*@robust/0x{sidb}*"})
		}
		return "*!*@robust/0x" + fmt.Sprintf("%x", g.Range(1, 40))
	case 4:
		return "*!u@*"
	case 5:
		return "(["
	default:
		return pickNick(g)
	}
}

// clientLine draws one line a client may submit.
func clientLine(g *core.Stream) (line string, captcha string) {
	ch := func() string {
		if g.Chance(1, 15) {
			return g.Pick(e1BadChan)
		}
		return g.Pick(e1Chans)
	}
	text := func() string { return g.Pick(e1Texts) }
	switch r := g.Intn(100); {
	case r < 6:
		return "NICK " + pickNick(g), ""
	case r < 8:
		if g.Chance(1, 8) {
			// as long as a line can be (the user name is part of every prefix the session is relayed under)
			return "USER " + strings.Repeat(g.Pick([]string{"u", "é", "~"}), g.Pick2(64, 200, 470, 490, 600)) + " 0 * :" + g.Pick([]string{"Real Name", strings.Repeat("r", 400)}), ""
		}
		return "USER " + g.Pick([]string{"u", "root", "~x", ""}) + " 0 * :" + g.Pick([]string{"Real Name", "", "x"}), ""
	case r < 22:
		l := "JOIN " + pickChanList(g)
		c := ""
		if g.Chance(1, 3) {
			if g.Chance(1, 3) {
				c = g.Pick([]string{"ok", "ok", "old", "mut", "wrongpurpose", "parts4", "dots", "garbage"})
				l += " {captcha}"
			} else {
				l += " " + g.Pick(e1Keys)
			}
		}
		return l, c
	case r < 28:
		l := "PART " + pickChanList(g)
		if g.Chance(1, 3) {
			l += " :" + text()
		}
		return l, ""
	case r < 40:
		tgt := ch()
		if g.Chance(1, 3) {
			tgt = pickNick(g)
		}
		if g.Chance(1, 25) {
			tgt = "$*"
		}
		return g.Pick([]string{"PRIVMSG", "PRIVMSG", "NOTICE"}) + " " + tgt + " :" + text(), ""
	case r < 46:
		return "KICK " + ch() + " " + pickNick(g) + g.Pick([]string{"", " :bye", " :"}), ""
	case r < 58:
		switch g.Intn(11) {
		case 0:
			return "MODE " + ch(), ""
		case 1, 2:
			return "MODE " + ch() + " " + g.Pick([]string{"+o", "-o", "+o", "-o", "+oo"}) + " " + pickNick(g), ""
		case 3:
			return "MODE " + ch() + " " + g.Pick([]string{"+k", "-k", "+k"}) + " " + g.Pick(e1Keys), ""
		case 4, 5:
			if g.Chance(1, 6) {
				// mode letters outside ASCII; some have CR, LF or NUL as their low byte (U+010D, U+010A, U+0100)
				return "MODE " + g.Pick([]string{ch(), "{nicka}"}) + " " + g.Pick([]string{"+", "-", "+i", "-t"}) + g.Pick([]string{"\u010a", "\u010d", "\u0100", "\u200a", "\u00e9", "\u010aPING", "\u010dQUIT", "\U0001000a"}) + g.Pick([]string{"", "x", " arg"}), ""
			}
			return "MODE " + ch() + " " + g.Pick([]string{"+i", "-i", "+t", "-t", "+n", "-n", "+s", "-s", "+x", "-x", "+it", "-nt", "+z", "+é", "+", "-"}), ""
		case 6, 7:
			return "MODE " + ch() + " " + g.Pick([]string{"+b", "-b", "+b", "b"}) + g.Pick([]string{"", " " + pickMask(g)}), ""
		case 8:
			return "MODE " + pickNick(g) + g.Pick([]string{"", " +i", " -i", " +G", " -G", " +o", " +r"}), ""
		case 9:
			// several modes in one command, the last one a bare ban-list query
			return "MODE " + ch() + " " + g.Pick([]string{"+ob", "-ob", "+ib", "+tb", "-tb", "+kb", "+bb", "+nb"}) + " " + g.Pick([]string{pickNick(g), g.Pick(e1Keys)}), ""
		default:
			return "MODE " + ch() + " +ok-b " + pickNick(g) + " " + g.Pick(e1Keys) + " " + pickMask(g), ""
		}
	case r < 66:
		switch g.Intn(4) {
		case 0:
			return "TOPIC " + ch(), ""
		case 1:
			return "TOPIC " + ch() + " :", ""
		default:
			return "TOPIC " + ch() + " :" + text(), ""
		}
	case r < 71:
		return "INVITE " + pickNick(g) + " " + ch(), ""
	case r < 74:
		return "NAMES" + g.Pick([]string{"", " " + ch()}), ""
	case r < 76:
		return "WHO" + g.Pick([]string{"", " " + ch()}), ""
	case r < 79:
		return "WHOIS " + g.Pick([]string{pickNick(g), pickNick(g), ":"}), ""
	case r < 81:
		return "LIST" + g.Pick([]string{"", " " + pickChanList(g), " :"}), ""
	case r < 83:
		return "AWAY" + g.Pick([]string{"", " :gone", " :"}), ""
	case r < 84:
		return "ISON " + pickNick(g) + " " + pickNick(g), ""
	case r < 85:
		return "USERHOST " + pickNick(g), ""
	case r < 87:
		return "KNOCK " + ch() + g.Pick([]string{"", " :let me in"}), ""
	case r < 88:
		return g.Pick([]string{"MOTD", "PING", "PING :x", "PONG"}), ""
	case r < 91:
		return "OPER " + g.Pick([]string{e1OperName, e1OperName, "nobody", "second"}) + " " + g.Pick([]string{e1OperPass, e1OperPass, "wrong", "pw2"}), ""
	case r < 94:
		return g.Pick([]string{"KILL", "GLINE"}) + " " + pickNick(g) + g.Pick([]string{" :go away", " x", ""}), ""
	case r < 95:
		return g.Pick([]string{"NS", "CS", "NICKSERV", "BS"}) + g.Pick([]string{"", " IDENTIFY x", " :help me"}), ""
	case r < 96:
		return "PASS " + g.Pick([]string{"secret", "oper=" + e1OperName + " " + e1OperPass, "services=" + e1SvcPass, "nickserv=x:oper=root opw", "captcha={captcha}", ":captcha={captcha}"}), g.Pick([]string{"ok", "mut", "parts4", "dots", "garbage"})
	case r < 97:
		return "QUIT" + g.Pick([]string{"", " :bye", " :"}), ""
	case r < 98:
		return "SERVER services.robustirc.net 1 :Services", ""
	case r == 98:
		// command words no client library would send but the POST handler lets through: any byte except
		// CR, LF and NUL may appear anywhere in a line (whatever the server echoes must still be one line)
		alphabet := []string{"-", "*", "!", "#", "$", "%", "&", "(", ")", "+", ",", ".", "/", "0", "1", "9", ";", "<", "=", ">", "?", "@", "[", "\\", "]", "^", "_", "`", "{", "|", "}", "~", "\x01", "\x07", "\x1f", "\x7f", "\t", "ı", "ſ", "K", "é", "\xff", "\xc3", "a", "Z", "JOIN", "nick", "PRIVMSG"}
		w := ""
		for k := g.Range(1, 5); k > 0; k-- {
			w += g.Pick(alphabet)
		}
		return g.Pick([]string{"", "", " ", ":pfx ", "  "}) + w + g.Pick([]string{"", " x", " #a :text", " :", " " + pickNick(g)}), ""
	default:
		return g.Pick([]string{"", " ", ":", ":prefixonly", "FOO", "FOO bar", "join", "\x00", "JOIN", "KICK #a", "PRIVMSG", "PRIVMSG #a", "TOPIC", "MODE", "INVITE alice", ":x!y@z PRIVMSG #a :spoof", "SVSNICK alice eve 1", "@tag NICK foo", strings.Repeat("#a,", 200)}), ""
	}
}

// servicesLine draws one protocol-conforming line of a services link (prefix
// present where the protocol has one; full-form NICK; >=1 parameter for MODE).
func servicesLine(g *core.Stream) string {
	sn := func() string { return g.Pick(e1SvcNick) }
	ch := func() string { return g.Pick(e1Chans) }
	switch r := g.Intn(100); {
	case r < 18:
		n := sn()
		if g.Chance(1, 6) {
			n = pickNick(g)
		}
		return fmt.Sprintf("NICK %s 1 %s services localhost.net services.localhost.net 0 :%s Server", n, g.Pick([]string{"1422134861", "1422134861", "1422134861", "0", "1", "-1", "x", "99999999999"}), n)
	case r < 30:
		return ":" + sn() + " JOIN " + pickChanList(g)
	case r < 36:
		return ":" + sn() + " PART " + pickChanList(g)
	case r < 44:
		return ":" + sn() + " KICK " + ch() + " " + pickNick(g) + " :enforced"
	case r < 54:
		return ":" + sn() + " MODE " + ch() + g.Pick([]string{"", " +o " + pickNick(g), " -o " + pickNick(g), " +i", " -i", " +r", " +tn", " +z"})
	case r < 60:
		if g.Chance(1, 3) {
			return ":" + sn() + " TOPIC " + ch() + " " + sn() + " 0 :"
		}
		return ":" + sn() + " TOPIC " + ch() + " " + sn() + g.Pick([]string{" 1425036445", " 0", " notanumber"}) + " :" + g.Pick(e1Texts)
	case r < 65:
		return ":" + sn() + " INVITE " + pickNick(g) + " " + ch()
	case r < 75:
		tgt := ch()
		if g.Chance(1, 2) {
			tgt = pickNick(g)
		}
		return ":" + sn() + " " + g.Pick([]string{"PRIVMSG", "NOTICE"}) + " " + tgt + " :" + g.Pick(e1Texts)
	case r < 79:
		if g.Chance(1, 4) {
			return "QUIT :services going down"
		}
		return ":" + sn() + " QUIT :bye"
	case r < 83:
		return ":" + sn() + " KILL " + pickNick(g) + " :killed by services"
	case r < 88:
		return "SVSNICK " + pickNick(g) + " " + g.Pick([]string{pickNick(g), "Guest" + fmt.Sprint(g.Range(1, 3))}) + " :1425036445"
	case r < 92:
		return ":" + sn() + " SVSJOIN " + pickNick(g) + " " + ch()
	case r < 95:
		return ":" + sn() + " SVSPART " + pickNick(g) + " " + ch()
	case r < 97:
		return "SVSMODE " + pickNick(g) + " " + g.Pick([]string{"+r", "-r", "+d 17", "+x", "r"})
	case r < 99:
		return "SVSHOLD " + pickNick(g) + g.Pick([]string{"", " 30 :held", " 5 :held", " x :bad"})
	default:
		return "PING :services"
	}
}

// mintCaptcha builds a captcha token the way robustirc/captchasrv would
// ("okay:" + purpose from the challenge URL), signed with the network secret.
func mintCaptcha(kind string, auth string, lastActivityNano int64, cmd, arg string) string {
	switch kind {
	case "parts4":
		return "QQ==.QQ==.QQ==.QQ=="
	case "dots":
		return "...."
	case "garbage":
		return "not-base64.%%%.x"
	}
	purpose := fmt.Sprintf("okay:%s:%d:%s", cmd, lastActivityNano, arg)
	switch kind {
	case "old":
		purpose = fmt.Sprintf("okay:%s:%d:%s", cmd, lastActivityNano-int64(6*60*1e9), arg)
	case "old5":
		purpose = fmt.Sprintf("okay:%s:%d:%s", cmd, lastActivityNano-int64(5*60*1e9)-int64(2e9), arg) // just expired
	case "ancient":
		purpose = fmt.Sprintf("okay:%s:%d:%s", cmd, lastActivityNano-int64(24*3600*1e9), arg)
	case "edge":
		purpose = fmt.Sprintf("okay:%s:%d:%s", cmd, lastActivityNano-int64(4*60*1e9), arg) // still valid
	case "wrongpurpose":
		purpose = fmt.Sprintf("%s:%d:%s", cmd, lastActivityNano, arg) // the un-solved challenge itself (replay of the URL fragment)
	}
	challenge := []byte("challeng")
	if len(auth) >= 8 {
		challenge = []byte(auth[:8])
	}
	mac := hmac.New(sha256.New, e1HMAC)
	mac.Write([]byte(purpose))
	mac.Write(challenge)
	sum := mac.Sum(nil)
	if kind == "mut" {
		sum[0] ^= 0x40
	}
	return strings.Join([]string{
		base64.StdEncoding.EncodeToString([]byte(purpose)),
		base64.StdEncoding.EncodeToString(challenge),
		base64.StdEncoding.EncodeToString(sum),
	}, ".")
}

type e1Engine struct{}

func (e1Engine) Generate(seed uint64, prop, tier string) (json.RawMessage, error) {
	src := core.NewSource(seed)
	g := src.Stream("gen")
	sc := e1Scenario{Engine: "e1", Prop: prop, Seed: seed, Nodes: g.Range(2, 4), Offset: g.Chance(2, 3), Trailing: []int{0, 0, 2, 10, 10000}[g.Intn(5)]}
	if g.Chance(1, 10) {
		sc.JSONEnc = true
	}
	add := func(s e1Step) { sc.Steps = append(sc.Steps, s) }
	nsess := 0
	svc := -1
	// prologue: configuration, a few registered users, optionally a services link
	if !g.Chance(1, 8) {
		add(e1Step{K: "config", Data: e1Config(g, g.Intn(6))})
	}
	nusers := g.Range(2, 5)
	for u := 0; u < nusers; u++ {
		add(e1Step{K: "create", Addr: g.Pick(e1Addrs)})
		s := nsess
		nsess++
		if g.Chance(1, 10) {
			continue // stays unregistered
		}
		add(e1Step{K: "line", S: s, Data: "NICK " + e1Nicks[(u*2+g.Intn(2))%len(e1Nicks)], Addr: g.Pick(e1Addrs)})
		if g.Chance(1, 12) {
			continue // nick but no user
		}
		add(e1Step{K: "line", S: s, Data: "USER u" + fmt.Sprint(u) + " 0 * :User " + fmt.Sprint(u)})
		if g.Chance(1, 2) {
			add(e1Step{K: "line", S: s, Data: "JOIN " + g.Pick(e1Chans)})
		}
		if g.Chance(1, 3) {
			add(e1Step{K: "line", S: s, Data: "JOIN " + g.Pick(e1Chans) + "," + g.Pick(e1Chans)})
		}
	}
	if g.Chance(3, 5) {
		add(e1Step{K: "create"})
		svc = nsess
		nsess++
		add(e1Step{K: "line", S: svc, Data: "PASS services=" + e1SvcPass})
		add(e1Step{K: "line", S: svc, Data: "SERVER services.robustirc.net 1 :Services"})
		for i := 0; i < g.Range(1, 4); i++ {
			n := e1SvcNick[i%len(e1SvcNick)]
			add(e1Step{K: "line", S: svc, Svc: true, Data: fmt.Sprintf("NICK %s 1 1422134861 services localhost.net services.localhost.net 0 :%s", n, n)})
		}
		if g.Chance(1, 2) {
			add(e1Step{K: "line", S: svc, Svc: true, Data: ":ChanServ JOIN " + g.Pick(e1Chans)})
		}
	}
	if g.Chance(1, 3) {
		if s := g.Intn(nsess); s != svc {
			add(e1Step{K: "line", S: s, Data: "OPER " + e1OperName + " " + e1OperPass})
		}
	}
	// body
	n := g.Range(20, 120)
	if tier == "thorough" && g.Chance(1, 10) {
		n = g.Range(150, 400)
	}
	faulty := !g.Chance(1, 5) // fault-free runs are kept as a separate configuration
	// snippet: an actor gains a right, loses it, and tries to use it afterwards (C13's interesting histories)
	lostRight := func() {
		if nsess < 2 {
			return
		}
		a, b := g.Intn(nsess), g.Intn(nsess)
		if a == b || a == svc || b == svc {
			return
		}
		c := g.Pick(e1Chans)
		lc := c
		if g.Chance(1, 2) {
			lc = strings.ToLower(c)
		}
		add(e1Step{K: "line", S: a, Data: "JOIN " + c})
		add(e1Step{K: "line", S: b, Data: "JOIN " + c})
		if g.Chance(1, 2) {
			add(e1Step{K: "line", S: a, Data: "MODE " + lc + " " + g.Pick([]string{"-t", "-t", "+i", "+k k1", "+b *!*@*", "-n", "+o {nickb}"})})
		}
		switch g.Intn(4) {
		case 0:
			add(e1Step{K: "line", S: b, Data: "PART " + lc})
		case 1:
			add(e1Step{K: "line", S: a, Data: "KICK " + lc + " {nickb} :out"})
		case 2:
			add(e1Step{K: "line", S: a, Data: "MODE " + lc + " -o {nicka}"})
			b = a
		default:
			add(e1Step{K: "line", S: b, Data: "NICK " + pickNick(g)})
		}
		for k := 0; k < g.Range(1, 3); k++ {
			add(e1Step{K: "line", S: b, Data: g.Pick([]string{"TOPIC " + lc + " :taken over", "TOPIC " + lc + " :", "MODE " + lc + " +i", "MODE " + lc + " -k k1", "MODE " + lc + " +o {nickb}", "KICK " + lc + " {nicka} :revenge", "INVITE " + pickNick(g) + " " + lc, "JOIN " + lc, "JOIN " + lc + " k1", "PRIVMSG " + lc + " :still here?", "MODE " + lc + " +b x!*@*"})})
		}
	}
	// snippet: an invitation is issued, the channel empties and is re-created invite-only
	staleInvite := func() {
		if nsess < 2 {
			return
		}
		a, b := g.Intn(nsess), g.Intn(nsess)
		if a == b || a == svc || b == svc {
			return
		}
		c := "#club" + fmt.Sprint(g.Intn(2))
		add(e1Step{K: "line", S: a, Data: "JOIN " + c})
		add(e1Step{K: "line", S: b, Data: "NAMES"}) // makes b the "previous" session for {nickb}
		add(e1Step{K: "line", S: a, Data: "INVITE {nickb} " + c})
		add(e1Step{K: "line", S: a, Data: "PART " + c})
		add(e1Step{K: "line", S: a, Data: "JOIN " + c})
		add(e1Step{K: "line", S: a, Data: "MODE " + c + " +i"})
		add(e1Step{K: "line", S: b, Data: "JOIN " + c})
	}
	// snippet: a ban names a session's host (robust/0x<id>): the server also bans that session's network
	// address, which only shows when another session from the same address comes along later
	sessionBan := func() {
		if nsess < 2 {
			return
		}
		a, b := g.Intn(nsess), g.Intn(nsess)
		if a == b || a == svc || b == svc {
			return
		}
		c := g.Pick(e1Chans)
		addr := g.Pick(e1Addrs)
		add(e1Step{K: "line", S: a, Data: "JOIN " + c})
		add(e1Step{K: "line", S: b, Data: "NAMES", Addr: addr})
		add(e1Step{K: "line", S: a, Data: "MODE " + c + " +b *!*@robust/0x{sidb}"})
		if g.Chance(1, 2) {
			add(e1Step{K: "line", S: b, Data: "QUIT :bye"})
		}
		for k := 0; k < g.Range(0, 3); k++ {
			add(e1Step{K: "noop"})
		}
		add(e1Step{K: "create"})
		ls := nsess
		nsess++
		add(e1Step{K: "line", S: ls, Data: "NICK " + g.Pick(e1Nicks), Addr: addr})
		add(e1Step{K: "line", S: ls, Data: "USER again 0 * :Again", Addr: addr})
		add(e1Step{K: "line", S: ls, Data: "JOIN " + c, Addr: addr})
		add(e1Step{K: "line", S: ls, Data: "PRIVMSG " + c + " :am I banned?", Addr: addr})
	}
	// snippet: a captcha-protected channel and somebody at its gate with a fresh, expired, mutated or replayed token
	captchaGate := func() {
		if nsess < 2 {
			return
		}
		a, b := g.Intn(nsess), g.Intn(nsess)
		if a == b || a == svc || b == svc {
			return
		}
		c := "#gate" + fmt.Sprint(g.Intn(2))
		add(e1Step{K: "line", S: a, Data: "JOIN " + c})
		add(e1Step{K: "line", S: a, Data: "MODE " + c + " +x"})
		if g.Chance(1, 3) {
			add(e1Step{K: "line", S: b, Data: "NAMES"})
			add(e1Step{K: "line", S: a, Data: "MODE " + c + " +b " + g.Pick([]string{"*!*@robust/0x{sidb}", "{nickb}!*@*", "*!*@*"})})
		}
		for k := 0; k < g.Range(1, 3); k++ {
			add(e1Step{K: "line", S: b, Data: "JOIN " + c + " {captcha}", Captcha: g.Pick([]string{"ok", "edge", "old", "old5", "ancient", "mut", "wrongpurpose"})})
		}
		add(e1Step{K: "line", S: b, Data: "PRIVMSG " + c + " :am I in?"})
	}
	// snippet: a services bot with an ordinary nickname sits on a channel and leaves; a client takes the nickname
	botLeaves := func() {
		if svc < 0 || nsess < 3 {
			return
		}
		a, b := g.Intn(nsess), g.Intn(nsess)
		if a == b || a == svc || b == svc {
			return
		}
		bot := g.Pick([]string{"mallory", "eve"})
		c := g.Pick(e1Chans)
		add(e1Step{K: "line", S: a, Data: "JOIN " + c})
		add(e1Step{K: "line", S: svc, Svc: true, Data: fmt.Sprintf("NICK %s 1 1422134861 services localhost.net services.localhost.net 0 :bot", bot)})
		add(e1Step{K: "line", S: svc, Svc: true, Data: ":" + bot + " JOIN " + c})
		add(e1Step{K: "line", S: svc, Svc: true, Data: g.Pick([]string{":" + bot + " QUIT :bye", ":" + bot + " PART " + c, ":" + bot + " QUIT"})})
		add(e1Step{K: "line", S: b, Data: "NICK " + bot})
		add(e1Step{K: "line", S: a, Data: "PRIVMSG " + c + " :who is listening?"})
		add(e1Step{K: "line", S: a, Data: "TOPIC " + c + " :new topic"})
	}
	// snippet (C02): the schedule compaction bugs need - a persisted snapshot, more (non-idempotent) traffic, a
	// snapshot whose Persist fails or is skipped, a Restore of the older one on the same FSM or of another
	// node's, another snapshot, a restart
	snapSaga := func() {
		if sc.Nodes < 2 {
			return
		}
		n := g.Range(1, sc.Nodes-1)
		traffic := func() {
			add(e1Step{K: "create"})
			ls := nsess
			nsess++
			add(e1Step{K: "line", S: ls, Data: "NICK " + g.Pick(e1Nicks)})
			add(e1Step{K: "line", S: ls, Data: "USER saga 0 * :Saga"})
			add(e1Step{K: "line", S: ls, Data: "JOIN " + g.Pick(e1Chans)})
			for k := 0; k < g.Range(0, 3); k++ {
				if s := g.Intn(nsess); s != svc {
					l, c := clientLine(g)
					add(e1Step{K: "line", S: s, Data: l, Captcha: c})
				}
			}
		}
		add(e1Step{K: "apply", N: n, Cnt: 1000})
		add(e1Step{K: "snap", N: n, Frac: g.Pick2(100, 101, 60)})
		traffic()
		add(e1Step{K: "apply", N: n, Cnt: 1000})
		st := e1Step{K: "snap", N: n, Frac: g.Pick2(100, 101, 80)}
		switch g.Intn(3) {
		case 0:
			st.Fail = g.Range(1, 400)
		case 1:
			st.Skip = true
		}
		add(st)
		switch g.Intn(3) {
		case 0:
			add(e1Step{K: "selfrestore", N: n})
		case 1:
			add(e1Step{K: "install", N: n, From: g.Range(1, sc.Nodes-1)})
		}
		traffic()
		add(e1Step{K: "apply", N: n, Cnt: 1000})
		add(e1Step{K: "snap", N: n, Frac: g.Pick2(100, 101, 50)})
		add(e1Step{K: "restart", N: n})
	}
	// snippet: caller id (+G): private messages reach the target only from somebody it shares a channel with;
	// the target sits on several channels, the sender on some of them
	callerID := func() {
		if nsess < 2 {
			return
		}
		a, b := g.Intn(nsess), g.Intn(nsess)
		if a == b || a == svc || b == svc {
			return
		}
		chans := []string{"#g1", "#g2", "#g3", "#g4"}
		for _, c := range chans[:g.Range(2, 4)] {
			add(e1Step{K: "line", S: b, Data: "JOIN " + c})
		}
		add(e1Step{K: "line", S: b, Data: "MODE {nicka} +G"})
		if g.Chance(3, 4) {
			add(e1Step{K: "line", S: a, Data: "JOIN " + g.Pick(chans[:3])})
		}
		add(e1Step{K: "line", S: b, Data: "NAMES"})
		add(e1Step{K: "line", S: a, Data: g.Pick([]string{"PRIVMSG", "NOTICE"}) + " {nickb} :are you there?"})
		add(e1Step{K: "line", S: a, Data: "PRIVMSG {nickb} :again"})
	}
	// snippet: a session on very many channels with long names (its WHOIS channel list does not fit one line),
	// then WHOIS by somebody else and by itself
	manyChannels := func() {
		if nsess < 2 {
			return
		}
		a, b := g.Intn(nsess), g.Intn(nsess)
		if a == b || a == svc || b == svc {
			return
		}
		nch := g.Range(30, 48)
		for k := 0; k < nch; k += 8 {
			var l []string
			for j := k; j < k+8 && j < nch; j++ {
				l = append(l, fmt.Sprintf("#%s-%02d", strings.Repeat("m", 8+(j*7)%20), j))
			}
			add(e1Step{K: "line", S: b, Data: "JOIN " + strings.Join(l, ",")})
		}
		add(e1Step{K: "line", S: a, Data: "WHOIS {nickb}"})
		add(e1Step{K: "line", S: b, Data: "WHOIS {nicka}"})
	}
	// snippet: several members on one channel, a membership-changing event, then channel and private traffic
	chatter := func() {
		if nsess < 3 {
			return
		}
		var m []int
		for _, s := range g.Perm(nsess) {
			if s != svc && len(m) < g.Range(2, 4) {
				m = append(m, s)
			}
		}
		if len(m) < 2 {
			return
		}
		c := g.Pick(e1Chans)
		lc := c
		if g.Chance(1, 2) {
			lc = strings.ToLower(c)
		}
		for _, s := range m {
			add(e1Step{K: "line", S: s, Data: "JOIN " + c})
		}
		switch g.Intn(6) {
		case 0:
			add(e1Step{K: "line", S: m[0], Data: "KICK " + lc + " {nickb} :bye"})
		case 1:
			add(e1Step{K: "line", S: m[len(m)-1], Data: "PART " + lc})
		case 2:
			add(e1Step{K: "line", S: m[len(m)-1], Data: "NICK " + g.Pick(e1Nicks)})
		case 3:
			add(e1Step{K: "line", S: m[len(m)-1], Data: "QUIT :gone"})
		case 4:
			add(e1Step{K: "line", S: m[0], Data: "MODE " + lc + " " + g.Pick([]string{"-n", "+i", "+o {nickb}"})})
		}
		for k := 0; k < g.Range(1, 3); k++ {
			s := m[g.Intn(len(m))]
			add(e1Step{K: "line", S: s, Data: g.Pick([]string{"PRIVMSG", "PRIVMSG", "NOTICE"}) + " " + lc + " :" + g.Pick(e1Texts)})
		}
		if g.Chance(1, 2) {
			add(e1Step{K: "line", S: m[0], Data: "PRIVMSG {nickb} :psst"})
		}
	}
	for i := 0; i < n; i++ {
		r := g.Intn(1000)
		switch {
		case r < 8:
			staleInvite()
		case r >= 555 && r < 563:
			sessionBan()
		case r >= 563 && r < 571:
			captchaGate()
		case r >= 571 && r < 577:
			botLeaves()
		case r >= 592 && r < 598:
			callerID()
		case r >= 598 && r < 602:
			manyChannels()
		case (prop == "C02" || prop == "C10") && faulty && r >= 577 && r < 592:
			snapSaga()
		case r >= 500 && r < 540:
			chatter()
		case r >= 540 && r < 555:
			// a services link (re)connects in the middle of the history: netjoin burst over the current state
			add(e1Step{K: "create"})
			ls := nsess
			nsess++
			add(e1Step{K: "line", S: ls, Data: "PASS services=" + e1SvcPass})
			add(e1Step{K: "line", S: ls, Data: "SERVER services" + fmt.Sprint(g.Intn(3)) + ".robustirc.net 1 :Services"})
			if svc < 0 {
				svc = ls
			}
		case r < 40:
			lostRight()
		case r < 560:
			s := g.Intn(nsess)
			if s == svc && !g.Chance(1, 20) {
				st := e1Step{K: "line", S: s, Data: servicesLine(g), Svc: true}
				if g.Chance(1, 20) {
					st.Cmid = uint64(g.Range(1, 3)) // a link's POSTs are retried like anybody's
				}
				if g.Chance(1, 8) {
					st.Addr = g.Pick(e1Addrs) // services connect from somewhere, too (possibly a banned address)
				}
				add(st)
			} else if s != svc {
				l, c := clientLine(g)
				if g.Chance(1, 20) && !strings.HasPrefix(l, ":") {
					// a client may name a sender: its own nickname (RFC 2812 2.3) or, hostile, somebody else's
					l = ":" + g.Pick([]string{"{nicka}", "{nickb}", "{nickb}", "ChanServ", "robustirc.net", "{nickb}!u@robust/0x1"}) + " " + l
				}
				st := e1Step{K: "line", S: s, Data: l, Captcha: c}
				if g.Chance(1, 6) {
					st.Addr = g.Pick(e1Addrs)
				}
				if g.Chance(1, 25) {
					st.Cmid = uint64(g.Range(1, 3)) // deliberately colliding client message ids
				}
				add(st)
			}
		case r < 640 && svc >= 0:
			add(e1Step{K: "line", S: svc, Data: servicesLine(g), Svc: true})
		case r < 670:
			add(e1Step{K: "create", Addr: g.Pick(e1Addrs)})
			s := nsess
			nsess++
			if g.Chance(4, 5) {
				add(e1Step{K: "line", S: s, Data: "NICK " + pickNick(g)})
				add(e1Step{K: "line", S: s, Data: "USER u 0 * :late"})
			}
		case r < 685:
			add(e1Step{K: "delete", S: g.Intn(nsess), Data: g.Pick([]string{"bye", "", "Ping timeout"})})
		case r < 700:
			st := e1Step{K: "config", Data: e1Config(g, g.Intn(6))}
			if g.Chance(1, 3) {
				st.Rev = g.Pick2(-1, 1, 5)
			}
			if g.Chance(1, 6) {
				st.Data = "this is not = = toml"
			}
			add(st)
		case r < 715:
			add(e1Step{K: "noop"})
		case r < 722:
			add(e1Step{K: "mod", S: g.Intn(nsess), Data: "PRIVMSG #a :marked earlier"})
		case r < 800:
			ms := int64(g.Range(1, 5000))
			switch g.Intn(6) {
			case 0:
				ms = int64(g.Range(20, 70)) * 1000 // around one minute (captcha grace, 1m expiration)
			case 1:
				ms = int64(g.Range(4, 12)) * 60 * 1000 // around the 5 and 10 minute marks
			}
			add(e1Step{K: "advance", Ms: ms})
		case r < 830:
			add(e1Step{K: "expire"})
		case r < 900:
			add(e1Step{K: "apply", N: g.Range(1, sc.Nodes-1), Cnt: g.Range(1, 30)})
		case !faulty:
			// no faults in this run
		case r < 940:
			st := e1Step{K: "snap", N: g.Range(1, sc.Nodes-1), Frac: g.Pick2(-1, 0, g.Range(1, 99), 100, 100, 101)}
			if g.Chance(1, 6) {
				st.Fail = g.Range(1, 400)
			}
			if g.Chance(1, 12) {
				st.Skip = true
			}
			if g.Chance(1, 4) {
				st.Mid = g.Range(1, 6)
			}
			add(st)
		case r < 960:
			if sc.JSONEnc && g.Chance(1, 2) {
				add(e1Step{K: "upgrade", N: g.Range(1, sc.Nodes-1)})
			} else {
				add(e1Step{K: "restart", N: g.Range(1, sc.Nodes-1)})
			}
		case r < 968:
			add(e1Step{K: "install", N: g.Range(1, sc.Nodes-1), From: g.Range(1, sc.Nodes-1)})
		case r < 975:
			add(e1Step{K: "selfrestore", N: g.Range(1, sc.Nodes-1)})
		case r < 1000:
			add(e1Step{K: "cycle", N: g.Range(1, sc.Nodes-1)})
		}
	}
	return json.Marshal(sc)
}
