// Package simsync is a drop-in for the parts of package sync that
// internal/outputstream uses (RWMutex, Mutex, Cond), under a cooperative
// scheduler owned by the simulator: exactly one task runs at a time and every
// Lock/RLock/Unlock/RUnlock/Cond.Wait is a point where the scheduler (driven by the scenario's
// explicit choice list) decides who runs next.
//
// Soundness: every execution produced here is an execution the real program can
// have (locks are never granted when the real ones could not be; Cond has no
// spurious wake-ups; a waiting writer does not bar readers, which corresponds
// to the real writer having called Lock a little later). So a failure seen here
// is a failure of the shipped code under some real interleaving.
//
// Outside a scheduled run (set-up code) the primitives just track state and
// never block.
package simsync

import (
	"fmt"
	"runtime/debug"
)

type Locker interface {
	Lock()
	Unlock()
}

type taskState int

const (
	stReady   taskState = iota // parked at a yield point, may be resumed
	stRunning                  // currently executing (or blocked outside the simulator's view)
	stBlocked                  // waiting for a lock or a condition
	stDone
)

type Task struct {
	Name   string
	id     int
	state  taskState
	resume chan struct{}
	// what the task waits for (diagnostics)
	waitOn string
	// Panic holds the recovered panic value of the task body, if any.
	Panic      interface{}
	PanicStack string
	// Point is the label of the yield point the task is parked at.
	Point string
	sched *Sched
	// number of write locks the task holds
	wdepth int
}

// OnWriteRelease, if set, is called on the task's goroutine when a task has released its last write lock,
// before the task yields: what the task did under the lock is in effect from this instant (the harness
// commits the corresponding model mutation here).
var OnWriteRelease func(t *Task)

func (t *Task) Done() bool     { return t.state == stDone }
func (t *Task) Blocked() bool  { return t.state == stBlocked }
func (t *Task) Ready() bool    { return t.state == stReady }
func (t *Task) WaitOn() string { return t.waitOn }

// Sched is the cooperative scheduler. All of its methods are called from the
// driver goroutine except park(), which tasks call.
type Sched struct {
	tasks   []*Task
	current *Task
	parked  chan *Task
	// Quiesce, if set, is called after resuming a task instead of waiting for
	// the park notification (bubble mode: synctest.Wait). The task may then be
	// blocked outside the simulator's view (channel, sleep): state stays
	// stRunning and External reports it.
	Quiesce func()
	Steps   int
}

var active *Sched

func NewSched() *Sched {
	s := &Sched{parked: make(chan *Task, 1)}
	active = s
	return s
}

// Close detaches the scheduler; primitives fall back to set-up mode.
func (s *Sched) Close() {
	if active == s {
		active = nil
	}
}

func (s *Sched) Tasks() []*Task { return s.tasks }

// Go creates a task; it starts parked at its entry point.
func (s *Sched) Go(name string, body func()) *Task {
	t := &Task{Name: name, id: len(s.tasks), state: stReady, resume: make(chan struct{}), sched: s, Point: "start"}
	s.tasks = append(s.tasks, t)
	go func() {
		<-t.resume
		defer func() {
			if r := recover(); r != nil {
				t.Panic = r
				t.PanicStack = string(debug.Stack())
			}
			t.state = stDone
			t.notifyParked()
		}()
		body()
	}()
	return t
}

func (t *Task) notifyParked() {
	s := t.sched
	s.current = nil
	if s.Quiesce == nil {
		s.parked <- t
	}
}

// park is called by the running task: it records its new state, hands control
// back to the scheduler and blocks until resumed.
func (t *Task) park(st taskState, point, waitOn string) {
	t.state = st
	t.Point = point
	t.waitOn = waitOn
	t.notifyParked()
	<-t.resume
}

// Runnable returns the tasks that may be resumed, in creation order.
func (s *Sched) Runnable() []*Task {
	var r []*Task
	for _, t := range s.tasks {
		if t.state == stReady {
			r = append(r, t)
		}
	}
	return r
}

// External returns tasks that are running from the simulator's point of view
// but did not park: they are blocked on something the simulator does not own
// (only possible in bubble mode).
func (s *Sched) External() []*Task {
	var r []*Task
	for _, t := range s.tasks {
		if t.state == stRunning {
			r = append(r, t)
		}
	}
	return r
}

// Step resumes t and returns when it has parked again (or finished, or - in
// bubble mode - blocked externally).
func (s *Sched) Step(t *Task) {
	if t.state != stReady {
		panic(fmt.Sprintf("simsync: Step on task %s in state %d", t.Name, t.state))
	}
	s.Steps++
	t.state = stRunning
	s.current = t
	t.resume <- struct{}{}
	s.Settle()
}

// Settle waits until the system is quiescent again (after the driver did
// something that may have unblocked an externally blocked task).
func (s *Sched) Settle() {
	if s.Quiesce != nil {
		s.Quiesce()
		return
	}
	<-s.parked
}

// ResumeExternal announces that the driver is about to do something (receive from a channel, let virtual time
// pass) that lets task t, which is blocked outside the simulator's view, continue. It runs f and waits
// for quiescence.
func (s *Sched) ResumeExternal(t *Task, f func()) {
	if t != nil && t.state == stRunning {
		s.current = t
	}
	f()
	s.Settle()
}

// AsDriver runs f on the driver goroutine in set-up mode (primitives never yield). It is needed while
// a task is blocked outside the simulator's view (it is then still the "current" task).
func (s *Sched) AsDriver(f func()) {
	saved := s.current
	s.current = nil
	defer func() { s.current = saved }()
	f()
}

func (s *Sched) AllDone() bool {
	for _, t := range s.tasks {
		if t.state != stDone {
			return false
		}
	}
	return true
}

// wake makes tasks blocked on `on` ready again (they re-check their condition).
func (s *Sched) wake(on interface{}) {
	key := fmt.Sprintf("%p", on)
	for _, t := range s.tasks {
		if t.state == stBlocked && t.waitOn == key {
			t.state = stReady
		}
	}
}

func cur() *Task {
	if active == nil {
		return nil
	}
	return active.current
}

// ---------------------------------------------------------------------------

type RWMutex struct {
	writer  bool
	readers int
	owner   string // diagnostics: who holds the write lock
}

func who() string {
	if t := cur(); t != nil {
		return t.Name + "@" + t.Point
	}
	return "driver"
}

func (m *RWMutex) key() string { return fmt.Sprintf("%p", m) }

func (m *RWMutex) Lock() {
	t := cur()
	if t == nil {
		if m.writer || m.readers > 0 {
			panic("simsync: Lock would block outside a scheduled run; write lock held by " + m.owner)
		}
		m.writer = true
		m.owner = "driver"
		return
	}
	t.park(stReady, "Lock", "")
	for m.writer || m.readers > 0 {
		t.park(stBlocked, "Lock(wait)", m.key())
	}
	m.writer = true
	m.owner = t.Name
	t.wdepth++
}

func (m *RWMutex) Unlock() {
	if !m.writer {
		panic("simsync: Unlock of unlocked RWMutex")
	}
	m.writer = false
	if active != nil {
		active.wake(m)
	}
	// a thread may be descheduled right after it released a lock (what it computed under the lock can be
	// stale by the time it uses it)
	if t := cur(); t != nil {
		if t.wdepth > 0 {
			t.wdepth--
		}
		if t.wdepth == 0 && OnWriteRelease != nil {
			OnWriteRelease(t)
		}
		t.park(stReady, "Unlock", "")
	}
}

func (m *RWMutex) RLock() {
	t := cur()
	if t == nil {
		if m.writer {
			panic("simsync: RLock would block outside a scheduled run; write lock held by " + m.owner)
		}
		m.readers++
		return
	}
	t.park(stReady, "RLock", "")
	for m.writer {
		t.park(stBlocked, "RLock(wait)", m.key())
	}
	m.readers++
}

func (m *RWMutex) RUnlock() {
	if m.readers <= 0 {
		panic("simsync: RUnlock of unlocked RWMutex")
	}
	m.readers--
	if m.readers == 0 && active != nil {
		active.wake(m)
	}
	if t := cur(); t != nil {
		t.park(stReady, "RUnlock", "")
	}
}

func (m *RWMutex) TryLock() bool {
	if m.writer || m.readers > 0 {
		return false
	}
	m.writer = true
	return true
}

func (m *RWMutex) TryRLock() bool {
	if m.writer {
		return false
	}
	m.readers++
	return true
}

type rlocker RWMutex

func (r *rlocker) Lock()   { (*RWMutex)(r).RLock() }
func (r *rlocker) Unlock() { (*RWMutex)(r).RUnlock() }

func (m *RWMutex) RLocker() Locker { return (*rlocker)(m) }

type Mutex struct {
	rw RWMutex
}

func (m *Mutex) Lock()         { m.rw.Lock() }
func (m *Mutex) Unlock()       { m.rw.Unlock() }
func (m *Mutex) TryLock() bool { return m.rw.TryLock() }

// ---------------------------------------------------------------------------

type Cond struct {
	L Locker
	// ticket scheme of the runtime's notifyList: a waiter holding ticket k
	// proceeds once k < notify.
	next    uint64
	notify  uint64
	waiters int
}

func NewCond(l Locker) *Cond { return &Cond{L: l} }

func (c *Cond) key() string { return fmt.Sprintf("%p", c) }

func (c *Cond) Wait() {
	t := cur()
	if t == nil {
		panic("simsync: Cond.Wait outside a scheduled run")
	}
	// still holding the lock, about to wait: whoever does not need the lock may run now (a wake-up sent
	// here, before the ticket is taken, is lost - the code under test has to rule that out by locking)
	t.park(stReady, "Cond.Wait(enter)", "")
	my := c.next
	c.next++
	c.waiters++
	c.L.Unlock()
	for my >= c.notify {
		t.park(stBlocked, "Cond.Wait", c.key())
	}
	c.waiters--
	c.L.Lock()
}

func (c *Cond) Broadcast() {
	if t := cur(); t != nil {
		t.park(stReady, "Cond.Broadcast", "")
	}
	c.notify = c.next
	if active != nil {
		active.wake(c)
	}
}

// Signal wakes the longest-waiting waiter, like the runtime does.
func (c *Cond) Signal() {
	if c.notify < c.next {
		c.notify++
	}
	if active != nil {
		active.wake(c)
	}
}

// Waiters reports how many tasks are inside Wait (harness diagnostics).
func (c *Cond) Waiters() int { return c.waiters }

// ---------------------------------------------------------------------------
// WaitGroup and Once are provided for completeness (unused by the code under
// test today); they are thin and never yield.

type Once struct{ done bool }

func (o *Once) Do(f func()) {
	if !o.done {
		o.done = true
		f()
	}
}
