//go:build !race

package main

const e2RaceBuild = false
