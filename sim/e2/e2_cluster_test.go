package main

// Engine E2 ("clustersim"): 1 or 3 nodes, each with the real FSM, IRC server,
// stores, hashicorp/raft, rafthttp transport and api.HTTP handlers, inside one
// synctest bubble (virtual clock). The wire between nodes and between clients
// and nodes is simulated (delay, loss, partitions); clients follow the
// bridge's retry protocol; faults are kills, restarts, partitions, loss
// windows, forced snapshots, slow nodes.

import (
	"bytes"
	"context"
	"encoding/json"
	"errors"
	"fmt"
	"io"
	"math/rand"
	"net/http"
	"net/http/httptest"
	"os"
	"path/filepath"
	"sort"
	"strconv"
	"strings"
	"sync"
	"sync/atomic"
	"testing"
	"testing/cryptotest"
	"testing/synctest"
	"time"

	hclog "github.com/hashicorp/go-hclog"
	"github.com/hashicorp/raft"
	"github.com/robustirc/internal/robusthttp"
	"github.com/robustirc/rafthttp"
	"github.com/robustirc/robustirc/internal/api"
	"github.com/robustirc/robustirc/internal/config"
	"github.com/robustirc/robustirc/internal/ircserver"
	"github.com/robustirc/robustirc/internal/outputstream"
	"github.com/robustirc/robustirc/internal/raftstore"
	"github.com/robustirc/robustirc/internal/robust"
	"github.com/robustirc/robustirc/internal/verifsim/core"
	"github.com/robustirc/robustirc/internal/verifsim/verifdisk"
)

const e2Password = "netpw"

// e2PrivateRoutes is filled by a generated file (see bin/engines.py rewrite("routes")); the literal below is
// only the fallback.
// e2WiringDefaultMux / e2WiringRoutes are filled by a generated file (rewrite("wiring")) from the current
// robustirc.go: main() either leaves http.Server.Handler nil (then http.DefaultServeMux serves, including
// whatever imported packages registered on it) or gives it a mux of its own.
var e2WiringDefaultMux = true
var e2WiringRoutes = [][3]string{{"http", "/robustirc/v1/", "DispatchPublic"}, {"http", "/", "DispatchPrivate"}}

type e2APIKey struct{}

var e2MuxOnce sync.Once
var e2Mux *http.ServeMux

// e2Serve hands a simulated request to the node's API the way main()'s HTTP server would: through the mux.
func e2Serve(h *api.HTTP, w http.ResponseWriter, req *http.Request) {
	e2MuxOnce.Do(func() {
		if e2WiringDefaultMux {
			e2Mux = http.DefaultServeMux
		} else {
			e2Mux = http.NewServeMux()
		}
		for _, rt := range e2WiringRoutes {
			method := rt[2]
			e2Mux.HandleFunc(rt[1], func(w http.ResponseWriter, r *http.Request) {
				a, _ := r.Context().Value(e2APIKey{}).(*api.HTTP)
				if a == nil {
					http.Error(w, "harness: no target", 599)
					return
				}
				switch method {
				case "DispatchPublic":
					a.DispatchPublic(w, r)
				case "DispatchPrivate":
					a.DispatchPrivate(w, r)
				case "DispatchPrivateWithoutAuth":
					a.DispatchPrivateWithoutAuth(w, r)
				default:
					panic("harness: main() registers api." + method + ", which the simulated wiring does not know")
				}
			})
		}
	})
	e2Mux.ServeHTTP(w, req.WithContext(context.WithValue(req.Context(), e2APIKey{}, h)))
}

var e2PrivateRoutes = [][2]string{{"GET", "/"}, {"GET", "/status"}, {"GET", "/config"}, {"POST", "/config"}, {"POST", "/kill"}}

type e2Step struct {
	At int64  `json:"at"` // virtual milliseconds after the workload phase starts
	K  string `json:"k"`
	N  int    `json:"n,omitempty"`
	Ms int64  `json:"ms,omitempty"`
	A  []int  `json:"a,omitempty"` // partition: nodes on side A
	P  int    `json:"p,omitempty"` // loss percent
	S  string `json:"s,omitempty"`
}

type e2Scenario struct {
	Engine   string   `json:"engine"`
	Prop     string   `json:"prop"`
	Seed     uint64   `json:"seed"`
	Nodes    int      `json:"nodes"`
	Clients  int      `json:"clients"`
	Msgs     int      `json:"msgs"`     // messages per client
	Trailing int      `json:"trailing"` // raft TrailingLogs
	Duration int64    `json:"duration"` // workload phase, virtual ms
	Steps    []e2Step `json:"steps"`
}

// ---------------------------------------------------------------------------
// nodes

var e2GlobalMu sync.Mutex // package main keeps per-process globals; FSM calls of different nodes are serialised

type e2Node struct {
	idx  int
	addr string
	dir  string
	run  *e2Run

	mu         sync.Mutex // guards the fields below against Restore swapping them
	irc        *ircserver.IRCServer
	out        *outputstream.OutputStream
	ircs       *raftstore.LevelDBStore
	logs       *raftstore.LevelDBStore
	fsm        *FSM
	raft       *raft.Raft
	trans      *rafthttp.HTTPTransport
	api        *api.HTTP
	fss        raft.SnapshotStore
	dirA       atomic.Value
	reaped     atomic.Bool
	killIn     atomic.Int64 // >0: the process dies at its killIn-th next storage operation
	killTorn   atomic.Int64
	forks      int
	aliveA     atomic.Bool
	incA       atomic.Int64
	stopExpire context.CancelFunc
	slowA      atomic.Int64
}

type e2FSM struct{ n *e2Node }

func (f *e2FSM) swapIn() {
	n := f.n
	ircServer, outputStream, ircStore = n.irc, n.out, n.ircs
	d := n.dir
	raftDir = &d
}

func (f *e2FSM) swapOut() {
	n := f.n
	n.mu.Lock()
	n.irc, n.out, n.ircs = ircServer, outputStream, ircStore
	n.mu.Unlock()
}

func (f *e2FSM) Apply(l *raft.Log) interface{} {
	e2GlobalMu.Lock()
	defer e2GlobalMu.Unlock()
	f.swapIn()
	defer f.swapOut()
	return f.n.fsm.Apply(l)
}

func (f *e2FSM) Snapshot() (raft.FSMSnapshot, error) {
	e2GlobalMu.Lock()
	defer e2GlobalMu.Unlock()
	f.swapIn()
	defer f.swapOut()
	*canaryCompactionStart = 0
	snap, err := f.n.fsm.Snapshot()
	if err != nil || snap == nil {
		return snap, err
	}
	// raft persists the snapshot on another goroutine while entries keep being applied; the simulator
	// decides how long that goroutine is kept waiting
	var d time.Duration
	if r := f.n.run; r.choice(fmt.Sprintf("persistdelay/%d", f.n.idx), 2) == 1 {
		d = time.Duration(1+r.choice(fmt.Sprintf("persistdelayms/%d", f.n.idx), 400)) * time.Millisecond
	}
	return &e2Snap{FSMSnapshot: snap, n: f.n, delay: d, appliedAt: f.n.raft.AppliedIndex()}, nil
}

type e2Snap struct {
	raft.FSMSnapshot
	n         *e2Node
	delay     time.Duration
	appliedAt uint64
}

func (s *e2Snap) Persist(sink raft.SnapshotSink) error {
	if s.delay > 0 {
		time.Sleep(s.delay)
	}
	if s.n.raft != nil && s.n.raft.AppliedIndex() > s.appliedAt {
		s.n.run.count("snapshots_persisted_after_further_applies", 1)
	}
	return s.FSMSnapshot.Persist(sink)
}

func (f *e2FSM) Restore(rc io.ReadCloser) error {
	e2GlobalMu.Lock()
	defer e2GlobalMu.Unlock()
	f.swapIn()
	defer f.swapOut()
	f.n.run.count("fsm_restores", 1)
	if f.n.aliveA.Load() {
		f.n.run.count("fsm_restores_by_install_snapshot", 1) // on a serving follower, sent by the leader
	}
	return f.n.fsm.Restore(rc)
}

func (n *e2Node) ircNow() *ircserver.IRCServer {
	n.mu.Lock()
	defer n.mu.Unlock()
	return n.irc
}

// start mirrors main(): stores, FSM, raft, API. bootstrap is true only for the very first start.
func (n *e2Node) start(bootstrap bool, servers []raft.Server) error {
	r := n.run
	if err := os.MkdirAll(n.dir, 0700); err != nil {
		return err
	}
	if err := outputstream.DeleteOldDatabases(n.dir); err != nil {
		return err
	}
	n.incA.Add(1)
	n.dirA.Store(n.dir)
	n.irc = ircserver.NewIRCServer(e1Network, time.Now())
	var err error
	if n.out, err = outputstream.NewOutputStream(n.dir); err != nil {
		return err
	}
	if n.logs, err = raftstore.NewLevelDBStore(filepath.Join(n.dir, "raftlog"), false, true); err != nil {
		return err
	}
	if n.ircs, err = raftstore.NewLevelDBStore(filepath.Join(n.dir, "irclog"), false, true); err != nil {
		return err
	}
	n.fsm = &FSM{store: n.logs, ircstore: n.ircs, lastSnapshotState: make(map[uint64][]byte),
		ReplaceState: func(*ircserver.IRCServer, *raftstore.LevelDBStore, *outputstream.OutputStream) {}}
	n.trans = rafthttp.NewHTTPTransport(raft.ServerAddress(n.addr), &e2Doer{run: r, src: n.idx, auth: true}, nil, "")
	cfg := raft.DefaultConfig()
	cfg.Logger = hclog.NewNullLogger()
	if os.Getenv("VERIF_RAFTLOG") != "" {
		cfg.Logger = hclog.New(&hclog.LoggerOptions{Name: fmt.Sprintf("raft-n%d", n.idx), Level: hclog.Debug, Output: os.Stderr})
	}
	if n.fss, err = raft.NewFileSnapshotStoreWithLogger(n.dir, 5, cfg.Logger); err != nil {
		return err
	}
	cfg.SnapshotInterval = 300 * time.Second
	cfg.MaxAppendEntries = 1024
	cfg.LeaderLeaseTimeout = 2 * time.Second
	cfg.HeartbeatTimeout = 2 * time.Second
	cfg.ElectionTimeout = 2 * time.Second
	cfg.ProtocolVersion = raft.ProtocolVersion(*raftProtocolVersion)
	cfg.LocalID = raft.ServerID(n.addr)
	if r.sc.Trailing >= 0 {
		cfg.TrailingLogs = uint64(r.sc.Trailing)
	}
	logcache, err := raft.NewLogCache(cfg.MaxAppendEntries, n.logs)
	if err != nil {
		return err
	}
	wrapped := &e2FSM{n: n}
	if bootstrap {
		if err := raft.BootstrapCluster(cfg, logcache, n.logs, n.fss, n.trans, raft.Configuration{Servers: servers}); err != nil {
			return err
		}
	}
	e2GlobalMu.Lock() // NewRaft restores the newest snapshot through the FSM
	e2GlobalMu.Unlock()
	n.raft, err = raft.NewRaft(cfg, wrapped, logcache, n.logs, n.fss, n.trans)
	if err != nil {
		return err
	}
	node = n.raft // the prometheus gauges of package main read this global
	n.api = api.NewHTTP(n.ircNow(), n.raft, n.ircs, n.out, n.trans, e1Network, e2Password, n.dir, n.addr, true, *raftProtocolVersion)
	// Restore() during NewRaft may have replaced the state already
	n.mu.Lock()
	n.api.ReplaceState(n.irc, n.ircs, n.out)
	n.mu.Unlock()
	n.fsm.ReplaceState = n.api.ReplaceState
	n.aliveA.Store(true)
	// the expiry loop of main()
	ctx, cancel := context.WithCancel(context.Background())
	n.stopExpire = cancel
	go func(nd *e2Node, rf *raft.Raft, ap *api.HTTP) {
		for {
			t := time.NewTimer(expireSessionsInterval)
			select {
			case <-ctx.Done():
				t.Stop()
				return
			case <-t.C:
			}
			if rf.State() != raft.Leader {
				continue
			}
			r.count("expiry_sweeps_on_leader", 1)
			for _, msg := range nd.ircNow().ExpireSessions() {
				ap.ApplyMessageWait(msg, 10*time.Second)
				r.count("expired_by_sweep", 1)
			}
		}
	}(n, n.raft, n.api)
	return nil
}

// dirNow is read inside file operations (possibly while n.mu is held by the caller), so it must not lock.
func (n *e2Node) dirNow() string {
	if v, ok := n.dirA.Load().(string); ok {
		return v
	}
	return n.dir
}

// killAtOp runs inside a file operation of node n (under the storage lock): fork the directory, then the
// node is dead to the world; its goroutines are stopped in the background.
func (r *e2Run) killAtOp(n *e2Node, kind string, torn int) {
	old := n.dirNow()
	n.forks++
	fork := fmt.Sprintf("%s.fork%d", strings.TrimSuffix(old, filepath.Ext(old)), n.forks)
	if err := verifdisk.CopyTree(old, fork); err != nil {
		r.count("fork_errors", 1)
		return
	}
	n.aliveA.Store(false)
	n.dir = fork // only the driver reads n.dir, and only after it saw the node dead
	n.dirA.Store(fork)
	r.count("kills_inside_storage_op", 1)
	r.count("kill_inside_"+kind, 1)
	if torn > 0 && kind == "write" {
		r.count("torn_writes", 1)
	}
	r.tr.Log("kill n%d inside %s", n.idx, kind)
	n.reaped.Store(false)
	go n.reap()
}

// reap stops the goroutines of a dead incarnation (its state is not used any more).
func (n *e2Node) reap() {
	n.stopExpire()
	rf := n.raft
	done := make(chan struct{})
	go func() { rf.Shutdown().Error(); close(done) }()
	select {
	case <-done:
	case <-time.After(30 * time.Second):
	}
	e2GlobalMu.Lock()
	n.mu.Lock()
	if n.out != nil {
		n.run.zombieMu.Lock()
		n.run.zombieOut = append(n.run.zombieOut, n.out)
		n.run.zombieMu.Unlock()
		n.out = nil
	}
	st1, st2 := n.fsm, n.logs
	n.mu.Unlock()
	e2GlobalMu.Unlock()
	if st1 != nil && st1.ircstore != nil {
		st1.ircstore.Close()
	}
	if st2 != nil {
		st2.Close()
	}
	n.reaped.Store(true)
}

// kill: the process dies. Nothing it says reaches anybody any more; memory is lost; the directory stays.
func (n *e2Node) kill() {
	if !n.aliveA.Load() {
		return
	}
	n.aliveA.Store(false)
	n.stopExpire()
	rf := n.raft
	// shut down off the driver's path: in-flight handlers may still hold things
	done := make(chan struct{})
	go func() {
		rf.Shutdown().Error()
		close(done)
	}()
	select {
	case <-done:
	case <-time.After(30 * time.Second):
	}
	e2GlobalMu.Lock()
	n.mu.Lock()
	// handlers of the dead incarnation may still be running (in a real process they would die with it):
	// its volatile output database is only closed at the end of the run
	if n.out != nil {
		n.run.zombieMu.Lock()
		n.run.zombieOut = append(n.run.zombieOut, n.out)
		n.run.zombieMu.Unlock()
	}
	if n.fsm != nil && n.fsm.ircstore != nil {
		n.fsm.ircstore.Close()
	}
	if n.logs != nil {
		n.logs.Close()
	}
	n.mu.Unlock()
	e2GlobalMu.Unlock()
}

// ---------------------------------------------------------------------------
// wire

type e2Doer struct {
	run  *e2Run
	src  int // -1: a client
	auth bool
}

func (d *e2Doer) Do(req *http.Request) (*http.Response, error) {
	if d.auth {
		req.SetBasicAuth("robustirc", e2Password)
	}
	return d.run.deliver(d.src, req, false)
}

// the api package caches one reverse proxy per leader address for the life of the process, so the
// round tripper must not be tied to one run
type e2RoundTripper struct{}

var e2Current *e2Run

func (t *e2RoundTripper) RoundTrip(req *http.Request) (*http.Response, error) {
	run := e2Current
	if run == nil {
		return nil, errors.New("no simulation running")
	}
	// leader proxying: the source node is not known here; partitions are evaluated against the Host
	// the request names as "Content-Location"; treat as coming from "any node that can reach the target"
	src := -2
	if v := req.Header.Get("X-Verif-Proxy-Src"); v != "" {
		src, _ = strconv.Atoi(v)
	}
	return run.deliver(src, req, true)
}

func (r *e2Run) nodeByHost(host string) *e2Node {
	for _, n := range r.nodes {
		if n.addr == host {
			return n
		}
	}
	return nil
}

func (r *e2Run) reachable(src, dst int) bool {
	if src < 0 {
		return true // clients reach every node that is up
	}
	side, _ := r.sideAv.Load().(map[int]bool)
	if len(side) == 0 {
		return true
	}
	return side[src] == side[dst]
}

func (r *e2Run) choice(stream string, n int) int {
	r.choiceMu.Lock()
	defer r.choiceMu.Unlock()
	return r.src.Stream(stream).Intn(n)
}

// deliver runs one request against the target node's real handlers, with simulated latency and loss.
func (r *e2Run) deliver(src int, req *http.Request, public bool) (*http.Response, error) {
	dst := r.nodeByHost(req.URL.Host)
	if dst == nil {
		return nil, fmt.Errorf("no such host %q", req.URL.Host)
	}
	link := fmt.Sprintf("net/%d>%d", src, dst.idx)
	lat := time.Duration(1+r.choice(link+"/lat", 8)) * time.Millisecond
	if dst.slowA.Load() > 0 {
		lat += time.Duration(dst.slowA.Load()) * time.Millisecond
	}
	if src >= 0 && r.nodes[src].slowA.Load() > 0 {
		lat += time.Duration(r.nodes[src].slowA.Load()) * time.Millisecond
	}
	handed := false // once the request was handed to a handler it belongs to that goroutine
	fail := func(why string) (*http.Response, error) {
		r.count("wire_"+why, 1)
		if !handed && req.Body != nil {
			req.Body.Close()
		}
		select {
		case <-time.After(time.Second):
		case <-req.Context().Done():
		}
		return nil, errors.New("simulated wire: " + why)
	}
	if src >= 0 && !r.nodes[src].aliveA.Load() {
		return fail("from_dead_node")
	}
	if !dst.aliveA.Load() {
		return fail("to_dead_node")
	}
	if !r.reachable(src, dst.idx) {
		return fail("partitioned")
	}
	if lp := int(r.lossA.Load()); lp > 0 && src >= 0 && r.choice(link+"/loss", 100) < lp {
		return fail("lost")
	}
	time.Sleep(lat)
	if !dst.aliveA.Load() {
		return fail("to_dead_node")
	}
	inc := dst.incA.Load()
	rec := httptest.NewRecorder()
	if src >= 0 {
		req.RemoteAddr = fmt.Sprintf("10.1.0.%d:4711", src+1)
	}
	r.count("wire_delivered", 1)
	h := dst.api
	// the handler runs on the target; if the target process dies meanwhile, the connection breaks and the
	// caller gets an error (the handler goroutine of the dead incarnation is abandoned)
	done := make(chan struct{})
	handed = true
	go func() {
		defer close(done)
		if strings.HasPrefix(req.URL.Path, "/robustirc/v1/") {
			req.Header.Set("X-Verif-Proxy-Src", strconv.Itoa(dst.idx))
		}
		e2Serve(h, rec, req)
	}()
wait:
	for {
		select {
		case <-done:
			break wait
		case <-time.After(100 * time.Millisecond):
			if !dst.aliveA.Load() || dst.incA.Load() != inc {
				return fail("connection_reset_target_died")
			}
			if src >= 0 && !r.nodes[src].aliveA.Load() {
				return fail("from_dead_node")
			}
		}
	}
	time.Sleep(lat)
	if !dst.aliveA.Load() || dst.incA.Load() != inc {
		return fail("reply_from_dead_node")
	}
	if src >= 0 && (!r.nodes[src].aliveA.Load() || !r.reachable(src, dst.idx)) {
		return fail("reply_cut")
	}
	return rec.Result(), nil
}

// ---------------------------------------------------------------------------
// run state

type e2Post struct {
	client   int
	seq      int
	token    string
	acked    bool
	mangled  bool
	ping     bool
	attempts int
}

type e2Client struct {
	idx      int
	run      *e2Run
	session  string // "0x.."
	sid      uint64
	auth     string
	nick     string
	node     int // preferred node for POSTs
	lastSeen string
	// what the client received through GetMessages, in order
	got    []robust.Message
	posts  []*e2Post
	cmid   uint64
	goneA  atomic.Bool
	readyA atomic.Bool
	cancel context.CancelFunc
	mu     sync.Mutex
}

type e2Run struct {
	sc             *e2Scenario
	res            *core.Result
	tr             *core.Trace
	src            *core.Source
	root           string
	nodes          []*e2Node
	clients        []*e2Client
	sideAv         atomic.Value // map[int]bool or nil
	lossA          atomic.Int64
	statMu         sync.Mutex
	choiceMu       sync.Mutex
	trMu           sync.Mutex
	stop           context.CancelFunc
	ctx            context.Context
	prop           string
	stepIdx        int
	zombieOut      []*outputstream.OutputStream
	zombieMu       sync.Mutex
	sessionsMayEnd bool
	retried        map[[2]uint64]string
	retriedMu      sync.Mutex
	attackTokens   []string
	cfgAccepted    int
	lastCfg        string
	secrets        map[string]string // secret -> session
	secretsMu      sync.Mutex
	lastEndedS     string
	bodyTokens     map[string]string // token -> nickname of the session the request was authenticated as
	bodyTokensMu   sync.Mutex
}

func (r *e2Run) count(k string, n int64) {
	r.statMu.Lock()
	r.res.Add(k, n)
	r.statMu.Unlock()
}

func (r *e2Run) violate(prop, class, sig, f string, a ...interface{}) {
	r.statMu.Lock()
	defer r.statMu.Unlock()
	r.res.Violate(prop, class, sig, fmt.Sprintf(f, a...), r.stepIdx)
}

// request issues an HTTP request of a client (or of the administrator) against a node.
func (r *e2Run) request(ctx context.Context, node int, method, path string, hdr map[string]string, body string) (int, []byte, http.Header, error) {
	n := r.nodes[node%len(r.nodes)]
	req, err := http.NewRequestWithContext(ctx, method, "https://"+n.addr+path, strings.NewReader(body))
	if err != nil {
		return 0, nil, nil, err
	}
	for k, v := range hdr {
		if k == "X-Verif-RemoteAddr" {
			req.RemoteAddr = v // the address the (simulated) TCP connection comes from
			continue
		}
		req.Header.Set(k, v)
	}
	resp, err := r.deliver(-1, req, true)
	if err != nil {
		return 0, nil, nil, err
	}
	defer resp.Body.Close()
	b, _ := io.ReadAll(resp.Body)
	return resp.StatusCode, b, resp.Header, nil
}

func basic() map[string]string {
	req, _ := http.NewRequest("GET", "http://x/", nil)
	req.SetBasicAuth("robustirc", e2Password)
	return map[string]string{"Authorization": req.Header.Get("Authorization")}
}

// ---------------------------------------------------------------------------
// clients (bridge protocol)

func (c *e2Client) sleep(ctx context.Context, d time.Duration) bool {
	t := time.NewTimer(d)
	defer t.Stop()
	select {
	case <-t.C:
		return true
	case <-ctx.Done():
		return false
	}
}

func (c *e2Client) createSession(ctx context.Context) bool {
	r := c.run
	for try := 0; ctx.Err() == nil; try++ {
		node := (c.node + try) % len(r.nodes)
		rctx, cancel := context.WithTimeout(ctx, 15*time.Second)
		code, body, _, err := r.request(rctx, node, "POST", "/robustirc/v1/session", nil, "")
		cancel()
		if err == nil && code == 200 {
			var rep struct{ Sessionid, Sessionauth, Prefix string }
			if json.Unmarshal(body, &rep) == nil && rep.Sessionid != "" {
				c.session, c.auth = rep.Sessionid, rep.Sessionauth
				r.noteSecret(rep.Sessionid, rep.Sessionauth)
				c.sid, _ = strconv.ParseUint(rep.Sessionid, 0, 64)
				r.count("sessions_created", 1)
				return true
			}
		}
		if !c.sleep(ctx, 500*time.Millisecond) {
			return false
		}
	}
	return false
}

// post sends one line following the protocol: same ClientMessageId on every retry, other node after a
// failure, 404 = the session is gone.
func (c *e2Client) post(ctx context.Context, line string, p *e2Post) bool {
	r := c.run
	c.cmid++
	id := c.cmid*1000003 + uint64(c.idx+1)
	body, _ := json.Marshal(map[string]interface{}{"Data": line, "ClientMessageId": id})
	for try := 0; ctx.Err() == nil; try++ {
		node := (c.node + try) % len(r.nodes)
		rctx, cancel := context.WithTimeout(ctx, 20*time.Second)
		code, rb, _, err := r.request(rctx, node, "POST", "/robustirc/v1/"+c.session+"/message", map[string]string{"X-Session-Auth": c.auth, "Content-Type": "application/json"}, string(body))
		cancel()
		r.count("posts_attempted", 1)
		if p != nil {
			p.attempts++
		}
		switch {
		case err == nil && code == 200:
			if p != nil {
				p.acked = true
			}
			if try > 0 {
				r.count("posts_acked_after_retry", 1)
			}
			r.count("posts_acked", 1)
			c.node = node
			return true
		case err == nil && code == 404:
			c.goneA.Store(true)
			r.count("client_session_gone", 1)
			r.liveSessionGone(c, node, "POST message", string(rb))
			return false
		default:
			r.count("post_failures", 1)
			if !c.sleep(ctx, time.Duration(250+r.choice(fmt.Sprintf("client/%d/backoff", c.idx), 500))*time.Millisecond) {
				return false
			}
		}
	}
	return false
}

type e2StreamWriter struct {
	hdr  http.Header
	code int
	buf  []byte
	on   func(m *robust.Message)
}

func (w *e2StreamWriter) Header() http.Header { return w.hdr }
func (w *e2StreamWriter) WriteHeader(c int)   { w.code = c }
func (w *e2StreamWriter) Flush()              {}
func (w *e2StreamWriter) Write(p []byte) (int, error) {
	if w.code == 0 {
		w.code = 200
	}
	if w.code != 200 {
		// an error body is kept whole
		w.buf = append(w.buf, p...)
		return len(p), nil
	}
	w.buf = append(w.buf, p...)
	for {
		i := bytes.IndexByte(w.buf, '\n')
		if i < 0 {
			break
		}
		line := w.buf[:i]
		w.buf = w.buf[i+1:]
		if w.code == 200 && len(line) > 0 {
			var m robust.Message
			if json.Unmarshal(line, &m) == nil {
				w.on(&m)
			}
		}
	}
	return len(p), nil
}

// reader keeps a GetMessages connection open, reconnecting with lastseen to another node after a failure.
func (c *e2Client) reader(ctx context.Context) {
	r := c.run
	node := c.node
	for ctx.Err() == nil && !c.goneA.Load() {
		n := r.nodes[node%len(r.nodes)]
		if !n.aliveA.Load() {
			node++
			if !c.sleep(ctx, 300*time.Millisecond) {
				return
			}
			continue
		}
		cctx, cancel := context.WithCancel(ctx)
		path := "/robustirc/v1/" + c.session + "/messages?lastseen=" + c.lastSeen
		req, _ := http.NewRequestWithContext(cctx, "GET", "https://"+n.addr+path, nil)
		req.Header.Set("X-Session-Auth", c.auth)
		req.RemoteAddr = "10.2.0.1:1"
		// the connection breaks after a seeded number of messages (possibly in the middle of a reply)
		cutAfter := -1
		if r.choice(fmt.Sprintf("client/%d/cut", c.idx), 3) == 0 {
			cutAfter = 1 + r.choice(fmt.Sprintf("client/%d/cutafter", c.idx), 12)
		}
		w := &e2StreamWriter{hdr: http.Header{}}
		inc := n.incA.Load()
		w.on = func(m *robust.Message) {
			if m.Type == robust.Ping || cutAfter == 0 {
				return // after the cut nothing reaches the client any more
			}
			if !n.aliveA.Load() || n.incA.Load() != inc {
				return // the process is dead: whatever its zombie still writes reaches nobody
			}
			c.mu.Lock()
			c.got = append(c.got, *m)
			c.lastSeen = fmt.Sprintf("%d.%d", m.Id.Id, m.Id.Reply)
			c.mu.Unlock()
			r.count("messages_streamed", 1)
			if cutAfter > 0 {
				cutAfter--
				if cutAfter == 0 {
					r.count("client_connection_cuts", 1)
					if len(w.buf) > 0 || m.Id.Reply > 0 {
						r.count("client_cuts_possibly_inside_reply", 1)
					}
					cancel()
				}
			}
		}
		// a watchdog cuts the connection when the node dies (the TCP connection would break)
		go func() {
			for cctx.Err() == nil {
				if !n.aliveA.Load() || n.incA.Load() != inc {
					cancel()
					return
				}
				select {
				case <-cctx.Done():
				case <-time.After(200 * time.Millisecond):
				}
			}
		}()
		r.count("getmessages_connections", 1)
		e2Serve(n.api, w, req)
		cancel()
		if w.code == 404 {
			c.goneA.Store(true)
			r.count("client_session_gone", 1)
			r.liveSessionGone(c, n.idx, "GET messages", string(w.buf))
			return
		}
		if w.code == 500 && strings.Contains(string(w.buf), "not yet seen") {
			r.count("lagging_node_said_not_yet_seen", 1)
		}
		node++
		if !c.sleep(ctx, time.Duration(300+r.choice(fmt.Sprintf("client/%d/reconnect", c.idx), 700))*time.Millisecond) {
			return
		}
	}
}

func (c *e2Client) life(ctx context.Context, wg *sync.WaitGroup, barrier *sync.WaitGroup) {
	defer wg.Done()
	r := c.run
	c.lastSeen = "0.0"
	joined := false
	defer func() {
		if !joined {
			barrier.Done()
		}
	}()
	if !c.createSession(ctx) {
		return
	}
	go c.reader(ctx)
	c.nick = fmt.Sprintf("cl%d", c.idx)
	if !c.post(ctx, "NICK "+c.nick, nil) || !c.post(ctx, "USER u"+strconv.Itoa(c.idx)+" 0 * :Client", nil) || !c.post(ctx, "JOIN #sim", nil) {
		return
	}
	// replies with several lines per recipient: multi-target JOIN/PART on private and shared channels
	own := fmt.Sprintf("#a%d,#b%d,#common", c.idx, c.idx)
	if !c.post(ctx, "JOIN "+own, nil) {
		return
	}
	c.readyA.Store(true)
	joined = true
	barrier.Done()
	barrier.Wait() // everybody is on the channel before tokens flow
	for k := 0; k < r.sc.Msgs && ctx.Err() == nil && !c.goneA.Load(); k++ {
		p := &e2Post{client: c.idx, seq: k, token: fmt.Sprintf("tok-%d-%d", c.idx, k)}
		c.mu.Lock()
		c.posts = append(c.posts, p)
		c.mu.Unlock()
		if r.choice(fmt.Sprintf("client/%d/multi", c.idx), 4) == 0 {
			// a multi-line reply for this client and the others
			c.post(ctx, fmt.Sprintf("PART #a%d,#common,#b%d", c.idx, c.idx), nil)
			c.post(ctx, fmt.Sprintf("JOIN #b%d,#common,#a%d", c.idx, c.idx), nil)
		}
		line := "PRIVMSG #sim :" + p.token
		if r.prop == "C15" {
			// hostile bodies through the real POST handler: the token stays at the end of the first line
			pre := []string{"", "a\rQUIT :injected ", "x\x00y ", strings.Repeat("A", 600) + " ", "ünï " + strings.Repeat("é", 250) + " ", "\x01ACTION ", "\r", "tab\there ", strings.Repeat("\U0001F600", 120+r.choice(fmt.Sprintf("client/%d/emoji", c.idx), 8)) + " ", strings.Repeat("\u20ac", 160+r.choice(fmt.Sprintf("client/%d/euro", c.idx), 8)) + " "}[r.choice(fmt.Sprintf("client/%d/hostile", c.idx), 10)]
			line = "PRIVMSG #sim :" + pre + p.token
			if strings.ContainsAny(pre, "\r\x00") || len(pre) > 400 {
				p.mangled = true // the line is cut or truncated by design; the token may not arrive
			}
			// a terminator far into a long body, behind filler the server discards (client-supplied prefix)
			switch r.choice(fmt.Sprintf("client/%d/hostile2", c.idx), 6) {
			case 0:
				line = ":" + strings.Repeat("x", 500+r.choice(fmt.Sprintf("client/%d/fill", c.idx), 300)) + " PRIVMSG #sim :hi" + []string{"\r", "\n", "\x00"}[r.choice(fmt.Sprintf("client/%d/term", c.idx), 3)] + "QUIT :smuggled " + p.token
				p.mangled = true
			case 1:
				line = "PRIVMSG #sim :" + strings.Repeat("y", 505+r.choice(fmt.Sprintf("client/%d/fill", c.idx), 20)) + "\r" + p.token
				p.mangled = true
			}
			r.count("hostile_posts", 1)
		}
		if (r.prop == "C10" || r.prop == "C05") && r.choice(fmt.Sprintf("client/%d/ping", c.idx), 4) == 0 {
			line = "PING :" + p.token
			p.ping = true
		}
		if c.post(ctx, line, p) && r.prop == "C10" {
			c.retryLast(ctx, line, p)
		}
		if !c.sleep(ctx, time.Duration(100+r.choice(fmt.Sprintf("client/%d/think", c.idx), 1500))*time.Millisecond) {
			return
		}
	}
}

// liveSessionGone: a node told a client with the right secret that its session does not exist (404).
// In these runs no session is ever deleted or expires, so this is the C17 violation "a lagging follower
// tells a client its live session is gone".
func (r *e2Run) liveSessionGone(c *e2Client, node int, what, body string) {
	if r.sessionsMayEnd {
		return
	}
	n := r.nodes[node%len(r.nodes)]
	r.violate("C17", "live-session-reported-gone", "http-404-for-live-session", "node %d (%s, applied index %d) answered 404 to %s of client %d for session %s, which exists and was never deleted: %s", n.idx, n.raft.State(), n.raft.AppliedIndex(), what, c.idx, c.session, trunc(body, 120))
}

// retrier (C10): after an acknowledged POST, repeat it with the same ClientMessageId on a node that has
// applied the first copy (the property's precondition), 1-3 times.
func (c *e2Client) retryLast(ctx context.Context, line string, p *e2Post) {
	r := c.run
	id := c.cmid*1000003 + uint64(c.idx+1)
	body, _ := json.Marshal(map[string]interface{}{"Data": line, "ClientMessageId": id})
	times := 1 + r.choice(fmt.Sprintf("client/%d/retries", c.idx), 3)
	for k := 0; k < times && ctx.Err() == nil; k++ {
		node := r.choice(fmt.Sprintf("client/%d/retrynode", c.idx), len(r.nodes))
		n := r.nodes[node]
		// wait until that node has applied the original
		applied := false
		for w := 0; w < 100 && ctx.Err() == nil; w++ {
			if n.aliveA.Load() && n.ircNow().LastPostMessage(robust.Id{Id: c.sid}) == id {
				applied = true
				break
			}
			if !c.sleep(ctx, 100*time.Millisecond) {
				return
			}
		}
		if !applied {
			return
		}
		rctx, cancel := context.WithTimeout(ctx, 20*time.Second)
		code, rb, _, err := r.request(rctx, node, "POST", "/robustirc/v1/"+c.session+"/message", map[string]string{"X-Session-Auth": c.auth, "Content-Type": "application/json"}, string(body))
		cancel()
		if err != nil {
			continue
		}
		r.count("duplicate_posts_sent", 1)
		if node != c.node {
			r.count("duplicate_posts_to_other_node", 1)
		}
		if code != 200 {
			r.violate("C10", "retry-not-acknowledged", "retry-not-acknowledged", "a repeated POST (same client message id %d, already applied on node %d) was answered %d: %s", id, node, code, trunc(string(rb), 100))
		}
		// the log-entry count is only judged when the original needed a single attempt: a protocol-level
		// retry of the original may legitimately have put a second copy into the log while the first was
		// still in flight (outside C10's precondition; such a copy is skipped when applied, see C05)
		if p != nil && p.attempts == 1 {
			r.retriedMu.Lock()
			r.retried[[2]uint64{c.sid, id}] = line
			r.retriedMu.Unlock()
		}
	}
}

// attacker (C11)
func (r *e2Run) attacker(ctx context.Context) {
	k := 0
	for ctx.Err() == nil {
		t := time.NewTimer(time.Duration(300+r.choice("attacker/wait", 2500)) * time.Millisecond)
		select {
		case <-ctx.Done():
			t.Stop()
			return
		case <-t.C:
		}
		var victims []*e2Client
		for _, c := range r.clients {
			if c.session != "" && !c.goneA.Load() {
				victims = append(victims, c)
			}
		}
		if len(victims) == 0 {
			continue
		}
		v := victims[r.choice("attacker/victim", len(victims))]
		other := victims[r.choice("attacker/other", len(victims))]
		creds := map[string]string{"none": "", "empty": "", "wrong": strings.Repeat("ab", 128), "prefix": v.auth[:1+r.choice("attacker/prefixlen", 8)], "extended": v.auth + "00", "upper": strings.ToUpper(v.auth)}
		if other != v {
			creds["other-session"] = other.auth
		}
		names := []string{}
		for n := range creds {
			names = append(names, n)
		}
		sort.Strings(names)
		cn := names[r.choice("attacker/cred", len(names))]
		if cn == "upper" && strings.ToUpper(v.auth) == v.auth {
			continue
		}
		hdr := map[string]string{}
		if cn != "none" {
			hdr["X-Session-Auth"] = creds[cn]
		}
		node := r.choice("attacker/node", len(r.nodes))
		k++
		token := fmt.Sprintf("ATTACK-%d", k)
		rctx, cancel := context.WithTimeout(ctx, 15*time.Second)
		if other != v && r.choice("attacker/bodysession", 4) == 0 {
			// the attacker owns a session (other's) and presents ITS secret, but the request body tries to name
			// the victim's session: whatever is applied must be applied as the session of the URL
			body, _ := json.Marshal(map[string]interface{}{"Data": "PRIVMSG #sim :" + token, "ClientMessageId": uint64(950000 + k),
				"Session": map[string]uint64{"Id": v.sid}, "Id": map[string]uint64{"Id": v.sid}, "Type": 1})
			if code, _, _, err := r.request(rctx, node, "POST", "/robustirc/v1/"+other.session+"/message", map[string]string{"X-Session-Auth": other.auth}, string(body)); err == nil && code == 200 {
				r.bodyTokensMu.Lock()
				if r.bodyTokens == nil {
					r.bodyTokens = map[string]string{}
				}
				r.bodyTokens[token] = other.nick
				r.bodyTokensMu.Unlock()
				r.count("attacks_body_names_other_session", 1)
			}
			cancel()
			continue
		}
		switch r.choice("attacker/route", 5) {
		case 0, 1:
			body, _ := json.Marshal(map[string]interface{}{"Data": "PRIVMSG #sim :" + token, "ClientMessageId": uint64(900000 + k)})
			code, rb, _, err := r.request(rctx, node, "POST", "/robustirc/v1/"+v.session+"/message", hdr, string(body))
			if err == nil {
				r.count("attacks_post", 1)
				r.attackTokens = append(r.attackTokens, token)
				if code < 400 {
					r.violate("C11", "unauthenticated-request-accepted", "post-accepted:"+cn, "POST message for session %s with %s secret was answered %d: %s", v.session, cn, code, trunc(string(rb), 100))
				}
			}
		case 2, 3:
			code, rb, _, err := r.request(rctx, node, "GET", "/robustirc/v1/"+v.session+"/messages?lastseen=0.0", hdr, "")
			if err == nil {
				r.count("attacks_get", 1)
				if code < 400 || bytes.Contains(rb, []byte(`"Data"`)) {
					r.violate("C11", "unauthenticated-request-accepted", "get-accepted:"+cn, "GET messages for session %s with %s secret was answered %d and revealed: %s", v.session, cn, code, trunc(string(rb), 200))
				}
			}
		default:
			code, rb, _, err := r.request(rctx, node, "DELETE", "/robustirc/v1/"+v.session, hdr, `{"Quitmessage":"pwned"}`)
			if err == nil {
				r.count("attacks_delete", 1)
				if code < 400 {
					r.violate("C11", "unauthenticated-request-accepted", "delete-accepted:"+cn, "DELETE session %s with %s secret was answered %d: %s", v.session, cn, code, trunc(string(rb), 100))
				}
			}
		}
		cancel()
		// private routes
		if r.choice("attacker/private", 3) == 0 {
			// the route table is extracted from the current dispatcher source at build time (e2PrivateRoutes);
			// /quit is left out: reaching it terminates the process
			var routes [][2]string
			for _, rt := range e2PrivateRoutes {
				if rt[1] != "/quit" {
					routes = append(routes, rt)
				}
			}
			routes = append(routes, [2]string{"GET", "/nonexistent"}, [2]string{"POST", "/nonexistent"}, [2]string{"DELETE", "/config"})
			// whatever else the process serves (packages that register themselves on the default mux)
			routes = append(routes, [2]string{"GET", "/debug/pprof/"}, [2]string{"GET", "/debug/pprof/cmdline"}, [2]string{"GET", "/debug/pprof/goroutine?debug=1"}, [2]string{"GET", "/debug/vars"}, [2]string{"GET", "/debug/requests"}, [2]string{"GET", "/robustirc/"}, [2]string{"GET", "/debug/pprof/heap"})
			burst := 1
			if r.choice("attacker/burst", 4) == 0 {
				burst = 14 // rapid wrong passwords: the back-off must not turn into acceptance
			}
			for b := 0; b < burst && ctx.Err() == nil; b++ {
				rt := routes[r.choice("attacker/privroute", len(routes))]
				hdr := map[string]string{}
				var how string
				switch r.choice("attacker/privcred", 4) {
				case 0:
					how = "no credentials"
				case 1:
					how = "wrong password"
					req, _ := http.NewRequest("GET", "http://x/", nil)
					req.SetBasicAuth("robustirc", "guess")
					hdr["Authorization"] = req.Header.Get("Authorization")
				case 2:
					how = "wrong user"
					req, _ := http.NewRequest("GET", "http://x/", nil)
					req.SetBasicAuth("admin", e2Password)
					hdr["Authorization"] = req.Header.Get("Authorization")
				default:
					how = "empty password"
					req, _ := http.NewRequest("GET", "http://x/", nil)
					req.SetBasicAuth("robustirc", "")
					hdr["Authorization"] = req.Header.Get("Authorization")
				}
				body := ""
				if rt[1] == "/kill" {
					hdr["Content-Type"] = "application/x-www-form-urlencoded"
					body = "session=" + v.session
				}
				rctx, cancel := context.WithTimeout(ctx, 15*time.Second)
				code, rb, _, err := r.request(rctx, node, rt[0], rt[1], hdr, body)
				cancel()
				if err != nil {
					continue
				}
				r.count("attacks_private", 1)
				if burst > 1 {
					r.count("attacks_private_in_burst", 1)
				}
				if code != 401 {
					r.violate("C11", "private-route-without-password", "private-route:"+rt[0]+" "+rt[1], "%s %s with %s was answered %d instead of 401 (request %d of a burst of %d): %s", rt[0], rt[1], how, code, b+1, burst, trunc(string(rb), 150))
				}
			}
		}
	}
}

// quietAttacks (C11): after convergence, with every actor stopped, requests without the session's secret are
// sent one at a time and the complete state of every node (including the node-local throttling state) is
// compared before and after each. A comparison counts only when no log entry was applied in between.
func (r *e2Run) quietAttacks() {
	var victims []*e2Client
	for _, c := range r.clients {
		if c.session != "" && !c.goneA.Load() {
			victims = append(victims, c)
		}
	}
	if len(victims) == 0 {
		return
	}
	type snap struct {
		idx  []uint64
		dump []string
	}
	take := func() snap {
		var s snap
		for _, n := range r.nodes {
			s.idx = append(s.idx, n.raft.AppliedIndex(), n.raft.LastIndex())
			irc := n.ircNow()
			s.dump = append(s.dump, ircserver.VerifDump(irc)+"\nthrottle="+ircserver.VerifThrottle(irc)+"\n")
		}
		return s
	}
	g := r.src.Stream("quietattack")
	for k := 0; k < 12; k++ {
		v := victims[g.Intn(len(victims))]
		other := victims[g.Intn(len(victims))]
		creds := [][2]string{{"none", ""}, {"empty", ""}, {"wrong", strings.Repeat("cd", 128)}, {"prefix", v.auth[:1+g.Intn(8)]}}
		if other != v {
			creds = append(creds, [2]string{"other-session", other.auth})
		}
		cr := creds[g.Intn(len(creds))]
		hdr := map[string]string{}
		if cr[0] != "none" {
			hdr["X-Session-Auth"] = cr[1]
		}
		node := g.Intn(len(r.nodes))
		method, path, body := "POST", "/robustirc/v1/"+v.session+"/message", fmt.Sprintf(`{"Data":"PRIVMSG #sim :QUIET-%d","ClientMessageId":%d}`, k, 990000+k)
		switch g.Intn(3) {
		case 1:
			method, path, body = "DELETE", "/robustirc/v1/"+v.session, `{"Quitmessage":"pwned"}`
		case 2:
			method, path, body = "GET", "/robustirc/v1/"+v.session+"/messages?lastseen=0.0", ""
		}
		reps := 1 + g.Intn(4)
		before := take()
		refused := true
		var code int
		for i := 0; i < reps; i++ {
			rctx, cancel := context.WithTimeout(context.Background(), 10*time.Second)
			c, _, _, err := r.request(rctx, node, method, path, hdr, body)
			cancel()
			if err != nil {
				refused = false
				break
			}
			code = c
			if c < 400 {
				r.violate("C11", "unauthenticated-request-accepted", "quiet-accepted:"+method+":"+cr[0], "%s %s with %s secret was answered %d", method, path, cr[0], c)
				refused = false
			}
		}
		after := take()
		if !refused || fmt.Sprint(before.idx) != fmt.Sprint(after.idx) {
			r.count("quiet_attacks_inconclusive", 1)
			continue
		}
		r.count("quiet_attacks_compared", 1)
		for i := range r.nodes {
			if before.dump[i] != after.dump[i] {
				r.violate("C11", "unauthenticated-effect", "refused-request-changed-state:"+method, "%d x %s %s with %s secret sent to node %d was refused (%d) and no log entry was applied, yet the state of node %d changed:\n%s", reps, method, path, cr[0], node%len(r.nodes), code, i, firstDiff(before.dump[i], after.dump[i]))
			}
		}
	}
}

// admin (C16): configuration posts, one after another
func (r *e2Run) admin(ctx context.Context) {
	g := r.src.Stream("admin")
	k := 0
	for ctx.Err() == nil {
		t := time.NewTimer(time.Duration(500+g.Intn(4000)) * time.Millisecond)
		select {
		case <-ctx.Done():
			t.Stop()
			return
		case <-t.C:
		}
		node := g.Intn(len(r.nodes))
		rctx, cancel := context.WithTimeout(ctx, 15*time.Second)
		code, body, hdr, err := r.request(rctx, node, "GET", "/config", basic(), "")
		cancel()
		if err != nil || code != 200 {
			continue
		}
		rev, _ := strconv.ParseUint(hdr.Get("X-RobustIRC-Config-Revision"), 10, 64)
		_ = body
		k++
		toml := fmt.Sprintf("SessionExpiration = \"%dm0s\"\nPostMessageCooloff = \"%dms\"\nMaxChannels = %d\n[IRC]\n[[IRC.Operators]]\nName = \"root\"\nPassword = \"pw%d\"\n[TrustedBridges]\n\"b%d\" = \"bridge\"\n", 20+k, 100+g.Intn(400), 50+k, k, k)
		if g.Chance(1, 6) {
			// two administrators edit at the same time: both read revision N and post an update naming N in
			// the same instant (possibly through different nodes). At most one of them may be accepted.
			lead := r.leader()
			if lead == nil || lead.raft.AppliedIndex() < lead.raft.LastIndex() {
				continue
			}
			inForce := ircserver.VerifPriv(lead.ircNow()).Revision
			type res struct {
				code int
				err  error
				k    int
			}
			out := make(chan res, 2)
			for t := 0; t < 2; t++ {
				k++
				kk := k
				nd := g.Intn(len(r.nodes))
				body := fmt.Sprintf("SessionExpiration = \"%dm0s\"\nPostMessageCooloff = \"%dms\"\nMaxChannels = %d\n[IRC]\n[[IRC.Operators]]\nName = \"root\"\nPassword = \"pw%d\"\n", 20+kk, 100+g.Intn(400), 50+kk, kk)
				go func() {
					h := basic()
					h["X-RobustIRC-Config-Revision"] = strconv.FormatUint(inForce, 10)
					rctx, cancel := context.WithTimeout(ctx, 25*time.Second)
					defer cancel()
					code, _, _, err := r.request(rctx, nd, "POST", "/config", h, body)
					out <- res{code, err, kk}
				}()
			}
			a, b := <-out, <-out
			r.count("config_posts_concurrent_pairs", 1)
			if a.err == nil && b.err == nil && a.code == 200 && b.code == 200 {
				r.violate("C16", "bad-config-accepted", "two-updates-for-one-revision", "two updates (pw%d, pw%d) naming the same revision %d, posted in the same instant, were both accepted: one of them named a revision that was no longer current", a.k, b.k, inForce)
			}
			if (a.err == nil && a.code == 200) || (b.err == nil && b.code == 200) {
				r.cfgAccepted++
			}
			continue
		}
		kind := g.Pick([]string{"valid", "valid", "valid", "stale", "future", "invalid-toml", "no-revision", "garbage-revision"})
		h := basic()
		sendRev := rev
		switch kind {
		case "stale":
			if rev == 0 {
				kind = "valid"
			} else {
				sendRev = rev - 1
			}
		case "future":
			sendRev = rev + 1 + uint64(g.Intn(3))
		case "invalid-toml":
			toml = "SessionExpiration = = 5\n[[["
		}
		if kind != "no-revision" {
			h["X-RobustIRC-Config-Revision"] = strconv.FormatUint(sendRev, 10)
		}
		if kind == "garbage-revision" {
			// names no revision at all
			h["X-RobustIRC-Config-Revision"] = g.Pick([]string{"", "abc", "-1", "1.0", "18446744073709551616", "rev0", "0 0"})
		}
		// the leader judges the revision; posts are sequential so nobody else changes it meanwhile.
		// (a follower's GET may lag: read the revision in force from the leader's state instead)
		lead := r.leader()
		if lead == nil {
			continue
		}
		lp := ircserver.VerifPriv(lead.ircNow())
		if lead.raft.AppliedIndex() < lead.raft.LastIndex() {
			continue
		}
		inForce := lp.Revision
		if kind == "valid" {
			h["X-RobustIRC-Config-Revision"] = strconv.FormatUint(inForce, 10)
			sendRev = inForce
		}
		rctx, cancel = context.WithTimeout(ctx, 25*time.Second)
		code, rb, _, err := r.request(rctx, node, "POST", "/config", h, toml)
		cancel()
		if err != nil {
			r.count("config_posts_undecided", 1)
			continue // outcome unknown (fault): the next GET tells
		}
		r.count("config_posts_"+kind, 1)
		shouldAccept := (kind == "valid") || (kind == "stale" && sendRev == inForce) || (kind == "future" && sendRev == inForce)
		switch {
		case code == 200 && !shouldAccept:
			r.violate("C16", "bad-config-accepted", "bad-config-accepted:"+kind, "a %s configuration update (revision sent %d, in force %d) was accepted: %s", kind, sendRev, inForce, trunc(string(rb), 100))
		case code == 200:
			r.cfgAccepted++
			r.lastCfg = toml
			// each accepted update raises the revision by exactly one
			for w := 0; w < 100; w++ {
				if l := r.leader(); l != nil && ircserver.VerifPriv(l.ircNow()).Revision > inForce {
					break
				}
				time.Sleep(100 * time.Millisecond)
			}
			if l := r.leader(); l != nil {
				if got := ircserver.VerifPriv(l.ircNow()).Revision; got != inForce+1 && r.faultFree() {
					r.violate("C16", "revision-step", "revision-step", "an accepted update on revision %d left the leader at revision %d (want %d)", inForce, got, inForce+1)
				}
			}
		case code >= 400 && code < 500 && shouldAccept && r.faultFree():
			r.violate("C16", "valid-config-refused", "valid-config-refused", "a valid update naming the revision in force (%d) was refused with %d: %s", inForce, code, trunc(string(rb), 120))
		case code >= 400 && !shouldAccept && kind != "invalid-toml":
			// a rejected update changes nothing: its (unique) operator password must never come into force
			// (an update that names the revision in force may be refused with an error and still commit
			// when the leader loses its lease meanwhile: undecided, not judged)
			time.Sleep(time.Duration(100+g.Intn(800)) * time.Millisecond)
			r.count("config_refusals_checked", 1)
			mark := fmt.Sprintf("pw%d", k)
			for _, n := range r.nodes {
				if !n.aliveA.Load() {
					continue
				}
				pv := ircserver.VerifPriv(n.ircNow())
				for _, op := range pv.Operators {
					if op[1] == mark {
						r.violate("C16", "rejected-config-took-effect", "rejected-config-took-effect:"+kind, "a %s configuration update (revision header %q, in force %d) was refused with %d (%s) but is in force on node %d (revision %d now)", kind, h["X-RobustIRC-Config-Revision"], inForce, code, trunc(string(rb), 80), n.idx, pv.Revision)
					}
				}
			}
		}
	}
}

// lagProber (C17): creates sessions while faults are active and at once asks every node for them.
// A node that has not applied the creation yet must not say 404.
func (r *e2Run) lagProber(ctx context.Context) {
	for ctx.Err() == nil {
		t := time.NewTimer(time.Duration(200+r.choice("lagprobe/wait", 1500)) * time.Millisecond)
		select {
		case <-ctx.Done():
			t.Stop()
			return
		case <-t.C:
		}
		rctx, cancel := context.WithTimeout(ctx, 10*time.Second)
		code, body, _, err := r.request(rctx, r.choice("lagprobe/node", len(r.nodes)), "POST", "/robustirc/v1/session", nil, "")
		cancel()
		if err != nil || code != 200 {
			continue
		}
		var rep struct{ Sessionid, Sessionauth string }
		if json.Unmarshal(body, &rep) != nil || rep.Sessionid == "" {
			continue
		}
		r.count("lagprobe_sessions", 1)
		r.noteSecret(rep.Sessionid, rep.Sessionauth)
		// all nodes are asked in the same instant, right after the creation was acknowledged: followers
		// learn the commit index only with the next AppendEntries
		var wg sync.WaitGroup
		for _, n := range r.nodes {
			if !n.aliveA.Load() {
				continue
			}
			n := n
			wg.Add(1)
			go func() {
				defer wg.Done()
				if sid, err := strconv.ParseUint(rep.Sessionid, 0, 64); err == nil && n.raft.AppliedIndex() < sid-prodMessageOffsetE2 {
					r.count("lagprobe_node_behind_creation", 1)
				}
				gctx, gcancel := context.WithTimeout(ctx, 400*time.Millisecond)
				req, _ := http.NewRequestWithContext(gctx, "GET", "https://"+n.addr+"/robustirc/v1/"+rep.Sessionid+"/messages?lastseen=0.0", nil)
				req.Header.Set("X-Session-Auth", rep.Sessionauth)
				w := &e2StreamWriter{hdr: http.Header{}, on: func(m *robust.Message) {}}
				e2Serve(n.api, w, req)
				gcancel()
				r.count("lagprobe_lookups", 1)
				switch {
				case w.code == 404:
					r.violate("C17", "live-session-reported-gone", "http-404-for-live-session", "node %d (%s, applied index %d) answered 404 to GET messages for session %s created a moment ago through another node: %s", n.idx, n.raft.State(), n.raft.AppliedIndex(), rep.Sessionid, trunc(string(w.buf), 100))
				case w.code == 500 && strings.Contains(string(w.buf), "not yet seen"):
					r.count("lagging_node_said_not_yet_seen", 1)
				}
				// POST is proxied to the leader by a lagging follower
				pctx, pcancel := context.WithTimeout(ctx, 5*time.Second)
				pb, _ := json.Marshal(map[string]interface{}{"Data": "PING :lag", "ClientMessageId": 77})
				pcode, prb, _, perr := r.request(pctx, n.idx, "POST", "/robustirc/v1/"+rep.Sessionid+"/message", map[string]string{"X-Session-Auth": rep.Sessionauth}, string(pb))
				pcancel()
				if perr == nil && pcode == 404 {
					r.violate("C17", "live-session-reported-gone", "http-404-for-live-session", "node %d (%s) answered 404 to POST message for session %s created a moment ago: %s", n.idx, n.raft.State(), rep.Sessionid, trunc(string(prb), 100))
				}
			}()
		}
		wg.Wait()
	}
}

// stress (C20): groups of operations started in the same instant, so that they are unordered by
// happens-before; the race detector is the oracle. Groups are separated by virtual sleeps only.
func (r *e2Run) stress(ctx context.Context) {
	g := 0
	// the posts of the groups go to a session of the actor's own: a client's session carries one POST at a
	// time (the protocol the duplicate detection relies on)
	own, ownAuth := "", ""
	for ctx.Err() == nil {
		t := time.NewTimer(time.Duration(100+r.choice("stress/wait", 900)) * time.Millisecond)
		select {
		case <-ctx.Done():
			t.Stop()
			return
		case <-t.C:
		}
		var live []*e2Client
		for _, c := range r.clients {
			if c.session != "" && !c.goneA.Load() {
				live = append(live, c)
			}
		}
		if len(live) == 0 {
			continue
		}
		g++
		v := live[r.choice("stress/victim", len(live))]
		node := r.choice("stress/node", len(r.nodes))
		if own == "" {
			rctx, cancel := context.WithTimeout(ctx, 15*time.Second)
			code, body, _, err := r.request(rctx, node, "POST", "/robustirc/v1/session", nil, "")
			var rep struct{ Sessionid, Sessionauth string }
			if err == nil && code == 200 && json.Unmarshal(body, &rep) == nil && rep.Sessionid != "" {
				r.noteSecret(rep.Sessionid, rep.Sessionauth)
				h := map[string]string{"X-Session-Auth": rep.Sessionauth}
				ok := true
				for i, line := range []string{"NICK stressor", "USER st 0 * :st", "JOIN #sim"} {
					b, _ := json.Marshal(map[string]interface{}{"Data": line, "ClientMessageId": uint64(6000000 + i)})
					if c, _, _, e := r.request(rctx, node, "POST", "/robustirc/v1/"+rep.Sessionid+"/message", h, string(b)); e != nil || c != 200 {
						ok = false
					}
				}
				if ok {
					own, ownAuth = rep.Sessionid, rep.Sessionauth
				}
			}
			cancel()
			if own == "" {
				continue
			}
		}
		var wg sync.WaitGroup
		launch := func(f func()) {
			wg.Add(1)
			go func() { defer wg.Done(); f() }()
		}
		post := func(k int) func() {
			return func() {
				body, _ := json.Marshal(map[string]interface{}{"Data": fmt.Sprintf("PRIVMSG #sim :stress-%d-%d", g, k), "ClientMessageId": uint64(1)<<40 + uint64(g*16+k)})
				rctx, cancel := context.WithTimeout(ctx, 15*time.Second)
				defer cancel()
				r.request(rctx, node, "POST", "/robustirc/v1/"+own+"/message", map[string]string{"X-Session-Auth": ownAuth}, string(body))
			}
		}
		get := func(path string) func() {
			return func() {
				rctx, cancel := context.WithTimeout(ctx, 15*time.Second)
				defer cancel()
				h := basic()
				h["Accept"] = []string{"text/html", "application/json"}[r.choice("stress/accept", 2)]
				r.request(rctx, node, "GET", path, h, "")
			}
		}
		read := func() {
			rctx, cancel := context.WithTimeout(ctx, 700*time.Millisecond)
			defer cancel()
			req, _ := http.NewRequestWithContext(rctx, "GET", "https://"+r.nodes[node].addr+"/robustirc/v1/"+v.session+"/messages?lastseen=0.0", nil)
			req.Header.Set("X-Session-Auth", v.auth)
			w := &e2StreamWriter{hdr: http.Header{}, on: func(m *robust.Message) {}}
			if r.nodes[node].aliveA.Load() {
				e2Serve(r.nodes[node].api, w, req)
			}
		}
		sweep := func() {
			// what main()'s expiry loop does on the leader (its 10 s timer rarely coincides with a group)
			nd := r.nodes[node]
			if nd.aliveA.Load() {
				nd.ircNow().ExpireSessions()
				r.count("stress_expiry_sweeps", 1)
			}
		}
		lifecycle := func() {
			// a whole session life in the same instant as everything else: create, register, quit
			rctx, cancel := context.WithTimeout(ctx, 15*time.Second)
			defer cancel()
			code, body, _, err := r.request(rctx, node, "POST", "/robustirc/v1/session", nil, "")
			var rep struct{ Sessionid, Sessionauth string }
			if err != nil || code != 200 || json.Unmarshal(body, &rep) != nil || rep.Sessionid == "" {
				return
			}
			r.noteSecret(rep.Sessionid, rep.Sessionauth)
			h := map[string]string{"X-Session-Auth": rep.Sessionauth}
			for i, line := range []string{fmt.Sprintf("NICK st%d", g), "USER st 0 * :st", "JOIN #sim"} {
				b, _ := json.Marshal(map[string]interface{}{"Data": line, "ClientMessageId": uint64(7000000 + g*10 + i)})
				r.request(rctx, node, "POST", "/robustirc/v1/"+rep.Sessionid+"/message", h, string(b))
			}
			r.request(rctx, node, "DELETE", "/robustirc/v1/"+rep.Sessionid, h, `{"Quitmessage":"done"}`)
			r.setLastEnded(rep.Sessionid)
			r.count("stress_session_lifecycles", 1)
		}
		cfgWrite := func() {
			rctx, cancel := context.WithTimeout(ctx, 15*time.Second)
			defer cancel()
			code, _, hdr, err := r.request(rctx, node, "GET", "/config", basic(), "")
			if err != nil || code != 200 {
				return
			}
			h := basic()
			h["X-RobustIRC-Config-Revision"] = hdr.Get("X-RobustIRC-Config-Revision")
			r.request(rctx, node, "POST", "/config", h, fmt.Sprintf("SessionExpiration = \"30m0s\"\nPostMessageCooloff = \"%dms\"\n[IRC]\n[[IRC.Operators]]\nName = \"root\"\nPassword = \"stpw\"\n", 50+g%300))
			r.count("stress_config_writes", 1)
		}
		if r.prop == "C11" && r.choice("stress/burst", 3) == 0 {
			// many bridges (re)connecting in the same instant: session creations overlap on one node
			for b := 0; b < 8; b++ {
				launch(func() {
					nd := r.nodes[node]
					if !nd.aliveA.Load() {
						return
					}
					req, _ := http.NewRequestWithContext(ctx, "POST", "https://"+nd.addr+"/robustirc/v1/session", strings.NewReader(""))
					rec := httptest.NewRecorder()
					e2Serve(nd.api, rec, req)
					var rep struct{ Sessionid, Sessionauth string }
					if rec.Code == 200 && json.Unmarshal(rec.Body.Bytes(), &rep) == nil && rep.Sessionid != "" {
						r.noteSecret(rep.Sessionid, rep.Sessionauth)
						r.count("stress_burst_creations", 1)
					}
				})
			}
		}
		stale := func() {
			// requests for sessions this node does not have: one that ended, one that does not exist yet
			rctx, cancel := context.WithTimeout(ctx, 5*time.Second)
			defer cancel()
			for _, sid := range []string{r.lastEnded(), fmt.Sprintf("0x%x", prodMessageOffsetE2+uint64(1000000+g))} {
				if sid == "" {
					continue
				}
				h := map[string]string{"X-Session-Auth": strings.Repeat("ef", 64)}
				r.request(rctx, node, "POST", "/robustirc/v1/"+sid+"/message", h, `{"Data":"PING :x","ClientMessageId":1}`)
				req, _ := http.NewRequestWithContext(rctx, "GET", "https://"+r.nodes[node].addr+"/robustirc/v1/"+sid+"/messages?lastseen=0.0", nil)
				req.Header.Set("X-Session-Auth", h["X-Session-Auth"])
				if r.nodes[node].aliveA.Load() {
					e2Serve(r.nodes[node].api, httptest.NewRecorder(), req)
				}
				r.count("stress_stale_session_requests", 2)
			}
		}
		operGline := func() {
			// an operator bans a user's address while the configuration is being read. Both talk to the leader
			// directly: behind a proxying follower every client has the follower's address, and banning that
			// address (legitimately) ends all of them
			l := r.leader()
			if l == nil {
				return
			}
			node := l.idx
			rctx, cancel := context.WithTimeout(ctx, 20*time.Second)
			defer cancel()
			mk := func(nick, addr string, lines ...string) (string, map[string]string) {
				code, body, _, err := r.request(rctx, node, "POST", "/robustirc/v1/session", map[string]string{"X-Verif-RemoteAddr": addr}, "")
				var rep struct{ Sessionid, Sessionauth string }
				if err != nil || code != 200 || json.Unmarshal(body, &rep) != nil || rep.Sessionid == "" {
					return "", nil
				}
				r.noteSecret(rep.Sessionid, rep.Sessionauth)
				h := map[string]string{"X-Session-Auth": rep.Sessionauth, "X-Verif-RemoteAddr": addr}
				for i, line := range append([]string{"NICK " + nick, "USER st 0 * :st"}, lines...) {
					b, _ := json.Marshal(map[string]interface{}{"Data": line, "ClientMessageId": uint64(8000000 + g*10 + i)})
					r.request(rctx, node, "POST", "/robustirc/v1/"+rep.Sessionid+"/message", h, string(b))
				}
				return rep.Sessionid, h
			}
			victim := fmt.Sprintf("stv%d", g)
			vs, _ := mk(victim, fmt.Sprintf("203.0.113.%d:40000", 1+g%250))
			os, oh := mk(fmt.Sprintf("sto%d", g), "203.0.113.251:40000", "OPER root stpw")
			if vs == "" || os == "" {
				return
			}
			var inner sync.WaitGroup
			for k := 0; k < 3; k++ {
				inner.Add(1)
				go func() { defer inner.Done(); get("/config")() }()
			}
			b, _ := json.Marshal(map[string]interface{}{"Data": "GLINE " + victim + " :stress", "ClientMessageId": uint64(8000000 + g*10 + 9)})
			r.request(rctx, node, "POST", "/robustirc/v1/"+os+"/message", oh, string(b))
			inner.Wait()
			r.request(rctx, node, "DELETE", "/robustirc/v1/"+os, oh, `{"Quitmessage":"done"}`)
			r.setLastEnded(os)
			r.count("stress_glines", 1)
		}
		earlyReader := func() {
			// what every client does: the long-poll is opened right after the session was created, before NICK.
			// The connection table then has no nickname for it and the connection status page looks it up
			// while the NICK (and a later nickname change) is applied
			rctx, cancel := context.WithTimeout(ctx, 20*time.Second)
			defer cancel()
			nd := r.nodes[node]
			code, body, _, err := r.request(rctx, node, "POST", "/robustirc/v1/session", nil, "")
			var rep struct{ Sessionid, Sessionauth string }
			if err != nil || code != 200 || json.Unmarshal(body, &rep) != nil || rep.Sessionid == "" || !nd.aliveA.Load() {
				return
			}
			r.noteSecret(rep.Sessionid, rep.Sessionauth)
			h := map[string]string{"X-Session-Auth": rep.Sessionauth}
			var inner sync.WaitGroup
			inner.Add(1)
			go func() {
				defer inner.Done()
				pctx, pcancel := context.WithTimeout(rctx, 3*time.Second)
				defer pcancel()
				req, _ := http.NewRequestWithContext(pctx, "GET", "https://"+nd.addr+"/robustirc/v1/"+rep.Sessionid+"/messages?lastseen=0.0", nil)
				req.Header.Set("X-Session-Auth", rep.Sessionauth)
				e2Serve(nd.api, &e2StreamWriter{hdr: http.Header{}, on: func(m *robust.Message) {}}, req)
			}()
			time.Sleep(50 * time.Millisecond)
			for k := 0; k < 3; k++ {
				inner.Add(1)
				go func() {
					defer inner.Done()
					for j := 0; j < 3; j++ {
						get("/status/getmessage")()
						time.Sleep(time.Duration(1+r.choice("stress/pagegap", 40)) * time.Millisecond)
					}
				}()
			}
			for i, line := range []string{fmt.Sprintf("NICK er%d", g), "USER st 0 * :st", fmt.Sprintf("NICK er%db", g)} {
				b, _ := json.Marshal(map[string]interface{}{"Data": line, "ClientMessageId": uint64(9500000 + g*10 + i)})
				r.request(rctx, node, "POST", "/robustirc/v1/"+rep.Sessionid+"/message", h, string(b))
			}
			inner.Wait()
			r.request(rctx, node, "DELETE", "/robustirc/v1/"+rep.Sessionid, h, `{"Quitmessage":"done"}`)
			r.setLastEnded(rep.Sessionid)
			r.count("stress_early_readers", 1)
		}
		bridged := func() {
			// requests of a bridge (X-Bridge-Auth set, here with a value that is not configured, so nothing
			// else changes) while a configuration update is applied
			var inner sync.WaitGroup
			inner.Add(1)
			go func() { defer inner.Done(); cfgWrite() }()
			nd := r.nodes[node]
			for k := 0; k < 6; k++ {
				inner.Add(1)
				go func(k int) {
					defer inner.Done()
					for j := 0; j < 6 && ctx.Err() == nil && nd.aliveA.Load(); j++ {
						rctx, cancel := context.WithTimeout(ctx, 30*time.Millisecond)
						req, _ := http.NewRequestWithContext(rctx, "GET", "https://"+nd.addr+"/robustirc/v1/"+own+"/messages?lastseen=0.0", nil)
						req.Header.Set("X-Session-Auth", ownAuth)
						req.Header.Set("X-Bridge-Auth", "not-a-configured-bridge")
						e2Serve(nd.api, &e2StreamWriter{hdr: http.Header{}, on: func(m *robust.Message) {}}, req)
						cancel()
						time.Sleep(time.Duration(1+r.choice("stress/bridgegap", 60)) * time.Millisecond)
					}
				}(k)
			}
			inner.Wait()
			r.count("stress_bridged_groups", 1)
		}
		metrics := func() {
			// what a metrics scrape evaluates: the accessors behind main()'s irc_sessions, irc_session_limit,
			// irc_channels and irc_channel_limit gauges, on the state of the node the group talks to (the gauges
			// themselves read package main's globals, which this process swaps per node)
			for k := 0; k < 4; k++ {
				nd := r.nodes[node]
				if !nd.aliveA.Load() {
					return
				}
				nd.mu.Lock()
				is := nd.irc
				nd.mu.Unlock()
				if is == nil {
					return
				}
				_ = is.NumChannels()
				_ = is.NumSessions()
				_ = is.ChannelLimit()
				_ = is.SessionLimit()
				_ = is.NumChannels()
				r.count("stress_metric_scrapes", 1)
				time.Sleep(time.Duration(1+r.choice("stress/scrapegap", 20)) * time.Millisecond)
			}
		}
		servicesLink := func() {
			// a services link forces the stressor into a fresh channel (SVSJOIN creates it) and out of it again
			// while metrics and status pages are read; talks to the leader directly like operGline
			l := r.leader()
			if l == nil {
				return
			}
			node := l.idx
			rctx, cancel := context.WithTimeout(ctx, 30*time.Second)
			defer cancel()
			code, _, hdr, err := r.request(rctx, node, "GET", "/config", basic(), "")
			if err != nil || code != 200 {
				return
			}
			h := basic()
			h["X-RobustIRC-Config-Revision"] = hdr.Get("X-RobustIRC-Config-Revision")
			if code, _, _, err := r.request(rctx, node, "POST", "/config", h, fmt.Sprintf("SessionExpiration = \"30m0s\"\nPostMessageCooloff = \"%dms\"\n[IRC]\n[[IRC.Operators]]\nName = \"root\"\nPassword = \"stpw\"\n[[IRC.Services]]\nPassword = \"svpw\"\n", 50+g%300)); err != nil || code != 200 {
				return
			}
			code, body, _, err := r.request(rctx, node, "POST", "/robustirc/v1/session", nil, "")
			var rep struct{ Sessionid, Sessionauth string }
			if err != nil || code != 200 || json.Unmarshal(body, &rep) != nil || rep.Sessionid == "" {
				return
			}
			r.noteSecret(rep.Sessionid, rep.Sessionauth)
			sh := map[string]string{"X-Session-Auth": rep.Sessionauth}
			say := func(i int, line string) {
				b, _ := json.Marshal(map[string]interface{}{"Data": line, "ClientMessageId": uint64(9000000 + g*10 + i)})
				r.request(rctx, node, "POST", "/robustirc/v1/"+rep.Sessionid+"/message", sh, string(b))
			}
			say(0, "PASS :services=svpw")
			say(1, "SERVER services.stress 1 :stress")
			var inner sync.WaitGroup
			for k := 0; k < 2; k++ {
				inner.Add(1)
				go func() { defer inner.Done(); metrics() }()
			}
			inner.Add(1)
			go func() { defer inner.Done(); get("/status/state")() }()
			say(2, fmt.Sprintf(":services.stress SVSJOIN stressor #svs%d", g))
			say(3, fmt.Sprintf(":services.stress SVSPART stressor #svs%d", g))
			inner.Wait()
			r.request(rctx, node, "DELETE", "/robustirc/v1/"+rep.Sessionid, sh, `{"Quitmessage":"done"}`)
			r.setLastEnded(rep.Sessionid)
			r.count("stress_services_links", 1)
		}
		n := 2 + r.choice("stress/size", 4)
		for k := 0; k < n; k++ {
			nops := 20
			if r.prop == "C20" {
				nops = 28
			}
			opk := r.choice("stress/op", nops)
			if d := os.Getenv("VERIF_DBG_NOOP"); d != "" && strings.Contains(d, fmt.Sprintf(",%d,", opk)) {
				opk = 0
			}
			switch opk {
			case 20, 21:
				launch(metrics)
			case 22, 23:
				launch(servicesLink)
			case 24, 25:
				launch(earlyReader)
			case 26, 27:
				launch(bridged)
			case 17:
				launch(stale)
			case 18, 19:
				launch(operGline)
			case 12:
				launch(sweep)
			case 13:
				launch(lifecycle)
			case 14:
				launch(cfgWrite)
			case 15:
				launch(get("/leader"))
			case 16:
				launch(get("/"))
			case 0, 1, 2:
				launch(post(k))
			case 3:
				launch(read)
			case 4:
				launch(get("/status"))
			case 5:
				launch(get("/status/sessions"))
			case 6:
				launch(get("/status/state"))
			case 7:
				launch(get("/config"))
			case 8:
				launch(get("/status/getmessage"))
			case 9:
				launch(get("/status/irclog"))
			case 10:
				launch(get("/snapshot"))
			default:
				launch(get("/irclog?sessionid=" + v.session))
			}
		}
		// always at least two posts for the same session in the same instant
		launch(post(8))
		launch(post(9))
		r.count("stress_groups", 1)
		r.count("stress_ops", int64(n+2))
		wg.Wait()
	}
}

func (r *e2Run) setLastEnded(s string) {
	r.secretsMu.Lock()
	r.lastEndedS = s
	r.secretsMu.Unlock()
}

func (r *e2Run) lastEnded() string {
	r.secretsMu.Lock()
	defer r.secretsMu.Unlock()
	return r.lastEndedS
}

// quitter (C15): short-lived sessions that join the common channel and leave through DELETE with a hostile
// quit message (the other route by which client-chosen text reaches the other clients).
func (r *e2Run) quitter(ctx context.Context) {
	k := 0
	for ctx.Err() == nil {
		t := time.NewTimer(time.Duration(800+r.choice("quitter/wait", 3000)) * time.Millisecond)
		select {
		case <-ctx.Done():
			t.Stop()
			return
		case <-t.C:
		}
		k++
		node := r.choice("quitter/node", len(r.nodes))
		rctx, cancel := context.WithTimeout(ctx, 20*time.Second)
		code, body, _, err := r.request(rctx, node, "POST", "/robustirc/v1/session", nil, "")
		var rep struct{ Sessionid, Sessionauth string }
		if err != nil || code != 200 || json.Unmarshal(body, &rep) != nil || rep.Sessionid == "" {
			cancel()
			continue
		}
		h := map[string]string{"X-Session-Auth": rep.Sessionauth}
		ok := true
		for i, line := range []string{fmt.Sprintf("NICK qt%d", k), "USER qt 0 * :qt", "JOIN #sim"} {
			b, _ := json.Marshal(map[string]interface{}{"Data": line, "ClientMessageId": uint64(3000000 + k*10 + i)})
			if c, _, _, e := r.request(rctx, node, "POST", "/robustirc/v1/"+rep.Sessionid+"/message", h, string(b)); e != nil || c != 200 {
				ok = false
			}
		}
		if ok {
			qm := []string{"bye\r\n:cl0!x@y PRIVMSG #sim :forged", "bye\nQUIT", "x\x00y", "plain", strings.Repeat("q", 700), "\r", "ünï\rcode", "\r\n:cl0!x@y PRIVMSG #sim :forged first", "\nQUIT", "\x00x"}[r.choice("quitter/msg", 10)]
			b, _ := json.Marshal(map[string]string{"Quitmessage": qm})
			if c, _, _, e := r.request(rctx, node, "DELETE", "/robustirc/v1/"+rep.Sessionid, h, string(b)); e == nil && c == 200 {
				r.count("hostile_quit_messages", 1)
			}
		}
		cancel()
	}
}

// noteSecret (C11): every secret the network ever handed out, by session.
func (r *e2Run) noteSecret(session, auth string) {
	r.secretsMu.Lock()
	defer r.secretsMu.Unlock()
	if r.secrets == nil {
		r.secrets = map[string]string{}
	}
	if other, dup := r.secrets[auth]; dup && other != session {
		r.violate("C11", "secret-not-unique", "secret-not-unique", "sessions %s and %s were given the same secret (%s...): each can post, read and delete as the other", other, session, trunc(auth, 16))
	}
	r.secrets[auth] = session
	r.count("secrets_compared", 1)
}

func (r *e2Run) faultFree() bool {
	return len(r.sc.Steps) == 0
}

// ---------------------------------------------------------------------------

type e2Engine struct{}

func (e2Engine) Generate(seed uint64, prop, tier string) (json.RawMessage, error) {
	g := core.NewSource(seed).Stream("gen")
	// TrailingLogs stays at raft's default as in main(): with a tiny value a follower that snapshotted and has a
	// divergent uncommitted tail can never be caught up by a leader that still holds the old entries (a property
	// of hashicorp/raft's AppendEntries consistency check, not of RobustIRC) - measured with TrailingLogs=0.
	g.Pick2(-1, -1, 0, 3)
	sc := e2Scenario{Engine: "e2", Prop: prop, Seed: seed, Nodes: g.Pick2(1, 3, 3, 3), Clients: g.Range(2, 4), Msgs: g.Range(3, 10), Trailing: -1, Duration: int64(g.Range(15, 50)) * 1000}
	nf := g.Range(0, 5)
	if g.Chance(1, 6) {
		nf = 0 // fault-free configuration
	}
	down := map[int]bool{}
	if sc.Nodes == 3 && g.Chance(1, 8) {
		// InstallSnapshot through raft: a follower is down while the others go on and snapshot with a short
		// log tail; when it comes back the leader has to send its snapshot (FSM.Restore on a live follower).
		// No other fault in these runs (a follower with a divergent tail behind a truncated leader log is a
		// raft matter, see above).
		sc.Trailing = g.Pick2(0, 1, 3)
		t1 := int64(g.Range(2000, 8000))
		sc.Steps = append(sc.Steps, e2Step{At: t1, K: "killfollower"})
		t2 := t1 + int64(g.Range(3000, 9000))
		sc.Steps = append(sc.Steps, e2Step{At: t2, K: "snapshotall"})
		if g.Chance(1, 2) {
			sc.Steps = append(sc.Steps, e2Step{At: t2 + int64(g.Range(1500, 4000)), K: "snapshotall"})
		}
		sc.Steps = append(sc.Steps, e2Step{At: t2 + int64(g.Range(4500, 9000)), K: "restartall"})
		if sc.Duration < t2+12000 {
			sc.Duration = t2 + 12000
		}
		nf = 0
	}
	for i := 0; i < nf; i++ {
		at := int64(g.Range(500, int(sc.Duration)-2000))
		n := g.Intn(sc.Nodes)
		switch r := g.Intn(127); {
		case r >= 115:
			// a node snapshots under traffic and is restarted from that snapshot a little later
			sc.Steps = append(sc.Steps, e2Step{At: at, K: "snapshot", N: n})
			sc.Steps = append(sc.Steps, e2Step{At: at + int64(g.Range(600, 4000)), K: "kill", N: n})
			sc.Steps = append(sc.Steps, e2Step{At: at + int64(g.Range(4500, 9000)), K: "restart", N: n})
		case r >= 100:
			// the process dies inside a storage operation (journal write of the raft log or of the applied-log
			// copy, manifest update, snapshot file ...), optionally leaving a torn write behind
			torn := 0
			if g.Chance(1, 2) {
				torn = g.Range(1, 60)
			}
			sc.Steps = append(sc.Steps, e2Step{At: at, K: "killop", N: n, Ms: int64(g.Intn(25)), P: torn})
			sc.Steps = append(sc.Steps, e2Step{At: at + int64(g.Range(1500, 9000)), K: "restart", N: n})
		case r < 30:
			sc.Steps = append(sc.Steps, e2Step{At: at, K: "kill", N: n})
			sc.Steps = append(sc.Steps, e2Step{At: at + int64(g.Range(500, 8000)), K: "restart", N: n})
			down[n] = true
		case r < 40:
			sc.Steps = append(sc.Steps, e2Step{At: at, K: "killall"})
			sc.Steps = append(sc.Steps, e2Step{At: at + int64(g.Range(500, 4000)), K: "restartall"})
		case r < 60 && sc.Nodes > 1:
			sc.Steps = append(sc.Steps, e2Step{At: at, K: "partition", A: []int{n}})
			sc.Steps = append(sc.Steps, e2Step{At: at + int64(g.Range(1000, 12000)), K: "heal"})
		case r < 70 && sc.Nodes > 1:
			sc.Steps = append(sc.Steps, e2Step{At: at, K: "loss", P: g.Range(5, 40)})
			sc.Steps = append(sc.Steps, e2Step{At: at + int64(g.Range(1000, 8000)), K: "loss", P: 0})
		case r < 85:
			sc.Steps = append(sc.Steps, e2Step{At: at, K: "snapshot", N: n})
		case r < 92:
			sc.Steps = append(sc.Steps, e2Step{At: at, K: "slow", N: n, Ms: int64(g.Range(50, 600))})
			sc.Steps = append(sc.Steps, e2Step{At: at + int64(g.Range(1000, 8000)), K: "slow", N: n, Ms: 0})
		default:
			sc.Steps = append(sc.Steps, e2Step{At: at, K: "killleader"})
			sc.Steps = append(sc.Steps, e2Step{At: at + int64(g.Range(500, 6000)), K: "restartall"})
		}
	}
	if prop == "C17" && sc.Nodes > 1 {
		for i := 0; i < g.Range(1, 3); i++ {
			at := int64(g.Range(0, int(sc.Duration)/2))
			sc.Steps = append(sc.Steps, e2Step{At: at, K: "slow", N: g.Intn(sc.Nodes), Ms: int64(g.Range(100, 900))})
		}
	}
	sort.SliceStable(sc.Steps, func(a, b int) bool { return sc.Steps[a].At < sc.Steps[b].At })
	return json.Marshal(sc)
}

var e2T *testing.T

func (e2Engine) Execute(raw json.RawMessage, prop string) (*core.Result, error) {
	var sc e2Scenario
	if err := json.Unmarshal(raw, &sc); err != nil {
		return nil, err
	}
	res := &core.Result{}
	var execErr error
	func() {
		defer func() {
			if rec := recover(); rec != nil {
				if s := fmt.Sprint(rec); strings.Contains(s, "main bubble goroutine has exited but blocked goroutines remain") {
					return
				}
				panic(rec)
			}
		}()
		synctest.Test(e2T, func(t *testing.T) {
			execErr = e2Execute(t, &sc, prop, res)
		})
	}()
	return res, execErr
}

func (r *e2Run) servers() []raft.Server {
	var s []raft.Server
	for _, n := range r.nodes {
		s = append(s, raft.Server{ID: raft.ServerID(n.addr), Address: raft.ServerAddress(n.addr)})
	}
	return s
}

func (r *e2Run) leader() *e2Node {
	for _, n := range r.nodes {
		if n.aliveA.Load() && n.raft.State() == raft.Leader {
			return n
		}
	}
	return nil
}

func (r *e2Run) doStep(st e2Step) {
	switch st.K {
	case "kill":
		n := r.nodes[st.N%len(r.nodes)]
		if n.aliveA.Load() {
			r.tr.Log("kill n%d", n.idx)
			n.kill()
			r.count("kills", 1)
		}
	case "killfollower":
		l := r.leader()
		for _, n := range r.nodes {
			if l != nil && n != l && n.aliveA.Load() {
				r.tr.Log("kill follower n%d", n.idx)
				n.kill()
				r.count("kills", 1)
				r.count("follower_kills_before_snapshots", 1)
				break
			}
		}
	case "snapshotall":
		for _, n := range r.nodes {
			if n.aliveA.Load() {
				n := n
				go func() {
					ctx, cancel := context.WithTimeout(r.ctx, 20*time.Second)
					defer cancel()
					if code, _, _, err := r.request(ctx, n.idx, "GET", "/snapshot", basic(), ""); err == nil && code == 200 {
						r.count("forced_snapshots", 1)
					}
				}()
			}
		}
	case "killleader":
		if n := r.leader(); n != nil {
			r.tr.Log("kill leader n%d", n.idx)
			n.kill()
			r.count("kills", 1)
			r.count("leader_kills", 1)
		}
	case "killall":
		for _, n := range r.nodes {
			n.kill()
		}
		r.count("kill_all", 1)
		r.tr.Log("killall")
	case "killop":
		n := r.nodes[st.N%len(r.nodes)]
		if n.aliveA.Load() && n.killIn.Load() == 0 {
			n.killTorn.Store(int64(st.P))
			n.killIn.Store(int64(1 + st.Ms))
			r.count("op_kills_armed", 1)
		}
	case "restart", "restartall":
		for _, n := range r.nodes {
			if (st.K == "restartall" || n.idx == st.N%len(r.nodes)) && !n.aliveA.Load() {
				if n.forks > 0 && !n.reaped.Load() {
					// the zombie of an operation-level kill is still being stopped
					for w := 0; w < 400 && !n.reaped.Load(); w++ {
						time.Sleep(100 * time.Millisecond)
					}
				}
				n.killIn.Store(0)
				if err := n.start(false, nil); err != nil {
					r.res.Inconclusive = "harness: restart: " + err.Error()
					return
				}
				r.count("restarts", 1)
				r.tr.Log("restart n%d", n.idx)
			}
		}
	case "partition":
		side := map[int]bool{}
		for _, a := range st.A {
			side[a%len(r.nodes)] = true
		}
		r.sideAv.Store(side)
		r.count("partitions", 1)
		r.tr.Log("partition %v", st.A)
	case "heal":
		r.sideAv.Store(map[int]bool{})
		r.tr.Log("heal")
	case "loss":
		r.lossA.Store(int64(st.P))
		if st.P > 0 {
			r.count("loss_windows", 1)
		}
	case "slow":
		r.nodes[st.N%len(r.nodes)].slowA.Store(st.Ms)
		if st.Ms > 0 {
			r.count("slow_nodes", 1)
		}
	case "snapshot":
		n := r.nodes[st.N%len(r.nodes)]
		if n.aliveA.Load() {
			go func() {
				ctx, cancel := context.WithTimeout(r.ctx, 20*time.Second)
				defer cancel()
				code, _, _, err := r.request(ctx, n.idx, "GET", "/snapshot", basic(), "")
				if err == nil && code == 200 {
					r.count("forced_snapshots", 1)
				}
			}()
		}
	}
}

func e2Execute(t *testing.T, sc *e2Scenario, prop string, res *core.Result) error {
	e1InitFlags()
	root, err := os.MkdirTemp("", "e2-")
	if err != nil {
		return err
	}
	defer os.RemoveAll(root)
	*useProtobuf = true
	robust.MessageOffset = prodMessageOffsetE2
	defer func() { robust.MessageOffset = 0 }()
	rand.Seed(int64(sc.Seed))
	cryptotest.SetGlobalRandom(t, sc.Seed)
	ctx, stop := context.WithCancel(context.Background())
	r := &e2Run{sc: sc, res: res, tr: &core.Trace{}, src: core.NewSource(sc.Seed), root: root, ctx: ctx, stop: stop, prop: prop, retried: map[[2]uint64]string{}}
	e2Current = r
	defer func() { e2Current = nil }()
	// process kill at storage-operation granularity: the node's whole directory is forked at the chosen file
	// operation (optionally after a torn prefix of the write); the old incarnation goes on as a zombie that
	// nobody hears and is shut down; the restart uses the fork
	verifdisk.Install(&verifdisk.Controller{Decide: func(dir, kind string) (func(), int) {
		for _, n := range r.nodes {
			if !strings.HasPrefix(dir, n.dirNow()+string(filepath.Separator)) || !n.aliveA.Load() {
				continue
			}
			if k := n.killIn.Load(); k > 0 {
				if n.killIn.Add(-1) == 0 {
					torn := int(n.killTorn.Load())
					return func() { r.killAtOp(n, kind, torn) }, torn
				}
			}
		}
		return nil, 0
	}})
	defer func() { verifdisk.ReleaseAll(); verifdisk.Install(nil) }()
	robusthttp.VerifTransport = func(deadlined bool) http.RoundTripper { return &e2RoundTripper{} }
	robusthttp.VerifClient = func(password string, deadlined bool) rafthttp.Doer { return &e2Doer{run: r, src: -1, auth: true} }
	defer func() { robusthttp.VerifTransport, robusthttp.VerifClient = nil, nil }()
	nn := sc.Nodes
	if nn != 1 {
		nn = 3
	}
	for k := 0; k < nn; k++ {
		r.nodes = append(r.nodes, &e2Node{idx: k, addr: fmt.Sprintf("node%d.sim:60667", k), dir: filepath.Join(root, fmt.Sprintf("n%d", k)), run: r})
	}
	shutdown := func() {
		stop()
		for _, n := range r.nodes {
			n.kill()
		}
		time.Sleep(3 * time.Second)
		for _, o := range r.zombieOut {
			o.InterruptGetNext()
		}
		time.Sleep(time.Second)
		for _, o := range r.zombieOut {
			o.Close()
		}
		time.Sleep(2 * time.Second)
	}
	for _, n := range r.nodes {
		if err := n.start(true, r.servers()); err != nil {
			shutdown()
			return err
		}
	}
	t0 := time.Now()
	// wait for a leader
	for k := 0; k < 200 && r.leader() == nil; k++ {
		time.Sleep(100 * time.Millisecond)
	}
	if r.leader() == nil {
		shutdown()
		res.Inconclusive = "no leader elected within 20s without faults"
		return nil
	}
	// clients
	var wg, barrier sync.WaitGroup
	nc := sc.Clients
	if nc < 1 {
		nc = 1
	}
	if nc > 6 {
		nc = 6
	}
	for k := 0; k < nc; k++ {
		c := &e2Client{idx: k, run: r, node: k % len(r.nodes)}
		r.clients = append(r.clients, c)
		wg.Add(1)
		barrier.Add(1)
		go c.life(ctx, &wg, &barrier)
	}
	actx, stopActors := context.WithCancel(ctx)
	var actors sync.WaitGroup
	runActor := func(f func(context.Context)) {
		actors.Add(1)
		go func() { defer actors.Done(); f(actx) }()
	}
	switch prop {
	case "C11":
		runActor(r.attacker)
		if e2RaceBuild {
			runActor(r.stress)
		}
	case "C15":
		runActor(r.quitter)
	case "C16":
		runActor(r.admin)
	case "C17":
		runActor(r.lagProber)
	case "C20":
		runActor(r.stress)
	}
	// workload phase with faults
	start := time.Now()
	si := 0
	for time.Since(start) < time.Duration(sc.Duration)*time.Millisecond && res.Inconclusive == "" {
		for si < len(sc.Steps) && time.Since(start) >= time.Duration(sc.Steps[si].At)*time.Millisecond {
			r.stepIdx = si
			r.doStep(sc.Steps[si])
			si++
		}
		time.Sleep(20 * time.Millisecond)
	}
	stopActors()
	actors.Wait()
	// faults stop: heal, restart what is down
	r.stepIdx = len(sc.Steps)
	r.sideAv.Store(map[int]bool{})
	r.lossA.Store(0)
	for _, n := range r.nodes {
		n.killIn.Store(0) // no fault may fire after this point
	}
	for _, n := range r.nodes {
		n.slowA.Store(0)
		if !n.aliveA.Load() {
			for w := 0; n.forks > 0 && !n.reaped.Load() && w < 400; w++ {
				time.Sleep(100 * time.Millisecond)
			}
			if err := n.start(false, nil); err != nil {
				shutdown()
				return err
			}
		}
	}
	lastFault := time.Now()
	// let the clients finish their scripts (bounded)
	cdone := make(chan struct{})
	go func() { wg.Wait(); close(cdone) }()
	select {
	case <-cdone:
	case <-time.After(120 * time.Second):
		r.count("clients_cut_short", 1)
	}
	if res.Inconclusive == "" {
		r.finalChecks(lastFault)
		r.propertyChecks()
	}
	res.SimMillis = time.Since(t0).Milliseconds()
	shutdown()
	res.Steps = len(sc.Steps)
	res.Fingerprint = r.tr.Digest()
	switch prop {
	case "C04":
		res.Nontrivial = res.Stats["client_connection_cuts"] >= 1 && res.Stats["messages_streamed"] >= 10
	case "C10":
		res.Nontrivial = res.Stats["duplicate_posts_sent"] >= 2
	case "C11":
		res.Nontrivial = res.Stats["attacks_post"]+res.Stats["attacks_get"]+res.Stats["attacks_delete"] >= 3
	case "C15":
		res.Nontrivial = res.Stats["hostile_posts"] >= 3 && res.Stats["lines_checked"] >= 10
	case "C16":
		res.Nontrivial = res.Stats["configs_accepted"] >= 1 && res.Stats["configs_compared"] >= 1
	case "C17":
		res.Nontrivial = res.Stats["getmessages_connections"] >= 2 && len(r.nodes) > 1
	case "C20":
		res.Nontrivial = res.Stats["stress_groups"] >= 3
	default:
		res.Nontrivial = res.Stats["posts_acked"] >= 3 && (res.Stats["kills"]+res.Stats["kill_all"]+res.Stats["partitions"] >= 1) && res.Stats["post_failures"]+res.Stats["posts_acked_after_retry"] >= 1
	}
	return nil
}

const prodMessageOffsetE2 = 4648398125000000000

// readAll fetches the complete stream of a session from one node (a fresh GetMessages from the start).
func (r *e2Run) readAll(n *e2Node, c *e2Client) ([]robust.Message, int) {
	var got []robust.Message
	ctx, cancel := context.WithCancel(r.ctx)
	req, _ := http.NewRequestWithContext(ctx, "GET", "https://"+n.addr+"/robustirc/v1/"+c.session+"/messages?lastseen=0.0", nil)
	req.Header.Set("X-Session-Auth", c.auth)
	var mu sync.Mutex
	last := time.Now()
	w := &e2StreamWriter{hdr: http.Header{}, on: func(m *robust.Message) {
		mu.Lock()
		if m.Type != robust.Ping {
			got = append(got, *m)
		}
		last = time.Now()
		mu.Unlock()
	}}
	done := make(chan struct{})
	go func() { e2Serve(n.api, w, req); close(done) }()
	for k := 0; k < 400; k++ {
		time.Sleep(50 * time.Millisecond)
		select {
		case <-done:
			k = 1 << 20
		default:
		}
		mu.Lock()
		idle := time.Since(last)
		mu.Unlock()
		if idle > 1500*time.Millisecond {
			break
		}
	}
	cancel()
	select {
	case <-done:
	case <-time.After(5 * time.Second):
	}
	mu.Lock()
	defer mu.Unlock()
	return append([]robust.Message(nil), got...), w.code
}

func streamString(ms []robust.Message) string {
	var b strings.Builder
	for _, m := range ms {
		d := m.Data
		if i := strings.Index(d, " 003 "); i >= 0 && strings.Contains(d, ":This server was created ") {
			d = d[:strings.Index(d, ":This server was created ")] + ":This server was created <masked>" // the one tolerated difference (C01)
		}
		fmt.Fprintf(&b, "%d.%d %q\n", m.Id.Id-prodMessageOffsetE2, m.Id.Reply, d)
	}
	return b.String()
}

func (r *e2Run) finalChecks(lastFault time.Time) {
	// bounded liveness: once faults stopped, a leader exists and all nodes reach the same applied index
	deadline := 60 * time.Second
	converged := false
	for time.Since(lastFault) < deadline {
		if l := r.leader(); l != nil {
			ai := l.raft.AppliedIndex()
			same := true
			for _, n := range r.nodes {
				if n.raft.AppliedIndex() != ai || n.raft.AppliedIndex() < n.raft.LastIndex() {
					same = false
				}
				// a node serves clients only while it is leader or a follower in recent contact with the leader
				if st := n.raft.State(); st != raft.Leader && (st != raft.Follower || time.Since(n.raft.LastContact()) > 3*time.Second) {
					same = false
				}
			}
			if same {
				converged = true
				break
			}
		}
		time.Sleep(200 * time.Millisecond)
	}
	if !converged {
		var st []string
		for _, n := range r.nodes {
			st = append(st, fmt.Sprintf("n%d %s applied=%d last=%d", n.idx, n.raft.State(), n.raft.AppliedIndex(), n.raft.LastIndex()))
		}
		r.violate("C05", "no-convergence", "no-convergence", "%v after the last fault (all nodes up, network healed) the nodes have not reached a common applied index: %s", deadline, strings.Join(st, "; "))
		return
	}
	r.count("converged_ms_after_last_fault", time.Since(lastFault).Milliseconds())
	// per session: identical stream on every node; acknowledged tokens exactly once, in posting order
	for _, c := range r.clients {
		if c.session == "" || c.goneA.Load() {
			continue
		}
		var ref string
		var refMsgs []robust.Message
		refOK := false
		for _, n := range r.nodes {
			ms, code := r.readAll(n, c)
			// a node may refuse while it is not (yet) a follower in contact with the leader; after the last
			// fault every node must serve again within the liveness bound
			for try := 0; code != 200 && try < 60; try++ {
				time.Sleep(time.Second)
				ms, code = r.readAll(n, c)
				r.count("stream_read_retries", 1)
			}
			if code != 200 {
				r.violate("C05", "stream-unavailable", "stream-unavailable", "node %d (%s, last contact %v ago) answers %d for the stream of live session %s after convergence", n.idx, n.raft.State(), time.Since(n.raft.LastContact()), code, c.session)
				if n.idx == 0 {
					break
				}
				continue
			}
			s := streamString(ms)
			if n.idx == 0 {
				ref, refMsgs = s, ms
				refOK = true
				r.tr.Log("stream of client %d: %s", c.idx, s)
			} else if s != ref {
				r.violate("C05", "streams-differ", "streams-differ", "session %s (client %d): node %d delivers a different sequence than node 0:\n%s", c.session, c.idx, n.idx, firstDiff(ref, s))
			}
			r.count("streams_compared", 1)
		}
		// tokens of the other clients
		for _, o := range r.clients {
			if o == c || !o.readyA.Load() || !c.readyA.Load() {
				continue
			}
			lastPos := -1
			for _, p := range o.posts {
				if p.ping {
					continue
				}
				cnt, pos := 0, -1
				var where []string
				for i, m := range refMsgs {
					if strings.Contains(m.Data, " PRIVMSG #sim ") && (strings.HasSuffix(m.Data, " "+p.token) || strings.HasSuffix(m.Data, ":"+p.token)) {
						cnt++
						pos = i
						where = append(where, fmt.Sprintf("%d.%d", m.Id.Id-prodMessageOffsetE2, m.Id.Reply))
					}
				}
				switch {
				case p.acked && cnt == 0 && !p.mangled:
					r.violate("C05", "acked-message-lost", "acked-message-lost", "message %s of client %d was acknowledged (HTTP 200) but is missing from the stream of client %d (session %s) on every node", p.token, o.idx, c.idx, c.session)
				case cnt > 1 && r.prop == "C10":
					r.violate("C10", "retry-applied-twice", "retry-applied-twice:PRIVMSG", "message %s of client %d, repeated with the same client message id, appears %d times in the stream of client %d", p.token, o.idx, cnt, c.idx)
				case cnt > 1:
					r.violate("C05", "message-duplicated", "message-duplicated", "message %s of client %d (posted once by the client, acknowledged=%v, attempts=%d) appears %d times in the stream of client %d, as replies to log entries %v: %s", p.token, o.idx, p.acked, p.attempts, cnt, c.idx, where, r.describeEntries(where))
				case cnt == 1 && pos < lastPos:
					r.violate("C05", "order-violated", "order-violated", "message %s of client %d appears before an earlier message of the same sender in the stream of client %d", p.token, o.idx, c.idx)
				}
				if cnt == 1 {
					lastPos = pos
				}
				if p.acked {
					r.count("acked_tokens_checked", 1)
				}
			}
		}
		// C15: every delivered line is one well-formed IRC line
		for _, m := range refMsgs {
			r.count("lines_checked", 1)
			if w := wellFormed(m.Data); w != "" {
				r.violate("C15", "malformed-line", "malformed:"+w, "message %d.%d delivered to client %d is not one well-formed IRC line (%s): %q", m.Id.Id-prodMessageOffsetE2, m.Id.Reply, c.idx, w, trunc(m.Data, 200))
			}
		}
		// C11: a request is applied as the session whose secret it carried, whatever its body says
		r.bodyTokensMu.Lock()
		for tok, nick := range r.bodyTokens {
			for _, m := range refMsgs {
				if (strings.HasSuffix(m.Data, " "+tok) || strings.HasSuffix(m.Data, ":"+tok)) && !strings.HasPrefix(m.Data, ":"+nick+"!") {
					r.violate("C11", "unauthenticated-effect", "posted-as-another-session", "a POST authenticated as %s whose body named another session was applied as somebody else: %q", nick, trunc(m.Data, 160))
				}
			}
		}
		r.bodyTokensMu.Unlock()
		// C11: nothing an attacker posted was applied
		for _, tok := range r.attackTokens {
			for _, m := range refMsgs {
				if strings.HasSuffix(m.Data, " "+tok) || strings.HasSuffix(m.Data, ":"+tok) {
					r.violate("C11", "unauthenticated-effect", "attack-token-delivered", "text %s posted without the session secret was delivered to client %d: %q", tok, c.idx, trunc(m.Data, 160))
				}
			}
		}
		// C10: a PING that was retried is answered once
		for _, p := range c.posts {
			if !p.ping || !p.acked {
				continue
			}
			cnt := 0
			for _, m := range refMsgs {
				if strings.Contains(m.Data, " PONG ") && strings.HasSuffix(m.Data, p.token) {
					cnt++
				}
			}
			if cnt > 1 && r.prop == "C05" {
				r.violate("C05", "message-duplicated", "message-duplicated:PONG", "client %d posted PING %s once (attempts=%d, retried by the protocol after a lost answer); it was answered %d times", c.idx, p.token, p.attempts, cnt)
			} else if cnt > 1 {
				r.violate("C10", "retry-applied-twice", "retry-applied-twice:PING", "client %d posted PING %s once and repeated it with the same client message id; it was answered %d times", c.idx, p.token, cnt)
			}
			r.count("retried_pings_checked", 1)
		}
		// what the client received over its reconnecting connections is a gap-free prefix of its stream
		c.mu.Lock()
		for i, m := range c.got {
			if i >= len(refMsgs) {
				break
			}
			if m.Id != refMsgs[i].Id {
				dup := false
				for _, pm := range c.got[:i] {
					if pm.Id == m.Id {
						dup = true
					}
				}
				if !dup {
					r.violate("C04", "gap", "cluster-message-skipped", "client %d never received message %d.%d (%q) of its stream: over its resumed connections it got %d.%d right after %s", c.idx, refMsgs[i].Id.Id-prodMessageOffsetE2, refMsgs[i].Id.Reply, trunc(refMsgs[i].Data, 60), m.Id.Id-prodMessageOffsetE2, m.Id.Reply, func() string {
						if i == 0 {
							return "the start"
						}
						return fmt.Sprintf("%d.%d", c.got[i-1].Id.Id-prodMessageOffsetE2, c.got[i-1].Id.Reply)
					}())
				}
				break
			}
		}
		c.mu.Unlock()
		// C11: a reader is given only what is addressed to its own session, however it resumes
		c.mu.Lock()
		inRef := map[robust.Id]bool{}
		for _, m := range refMsgs {
			inRef[m.Id] = true
		}
		for _, m := range c.got {
			if !refOK {
				break // the reference stream could not be read (reported above): nothing to compare with
			}
			r.count("received_messages_checked", 1)
			if !inRef[m.Id] {
				r.violate("C11", "foreign-message-revealed", "foreign-message-revealed", "client %d (session %s), reading with its own secret over resumed connections, was given message %d.%d %q, which is not part of its own stream on any node", c.idx, c.session, m.Id.Id-prodMessageOffsetE2, m.Id.Reply, trunc(m.Data, 100))
				break
			}
		}
		c.mu.Unlock()
		// what the client itself received over its reconnecting connection: no duplicates, in order
		c.mu.Lock()
		seen := map[string]bool{}
		var prev robust.Id
		for _, m := range c.got {
			key := fmt.Sprintf("%d.%d", m.Id.Id, m.Id.Reply)
			if seen[key] {
				r.violate("C04", "duplicate", "cluster-message-delivered-twice", "client %d received message %s twice over its resumed GetMessages connections", c.idx, key)
			}
			seen[key] = true
			if m.Id.Id < prev.Id || (m.Id.Id == prev.Id && m.Id.Reply < prev.Reply) {
				r.violate("C04", "order", "cluster-message-out-of-order", "client %d received %s after %d.%d", c.idx, key, prev.Id, prev.Reply)
			}
			prev = m.Id
		}
		c.mu.Unlock()
	}
}

// describeEntries renders the leader's log entries behind output ids "index.reply" (diagnostics).
func (r *e2Run) describeEntries(ids []string) string {
	lead := r.leader()
	if lead == nil {
		return ""
	}
	var out []string
	for _, id := range ids {
		idx, _ := strconv.ParseUint(strings.Split(id, ".")[0], 10, 64)
		var l raft.Log
		if err := lead.logs.GetLog(idx, &l); err != nil {
			out = append(out, fmt.Sprintf("%d: %v", idx, err))
			continue
		}
		m := robust.NewMessageFromBytes(l.Data, robust.IdFromRaftIndex(l.Index))
		out = append(out, fmt.Sprintf("index %d term %d: session %d client message id %d %q", idx, l.Term, m.Session.Id-prodMessageOffsetE2, m.ClientMessageId, trunc(m.Data, 40)))
	}
	return strings.Join(out, " | ")
}

// propertyChecks: C10 (log entries per client message id), C11 (victims untouched), C16 (same config everywhere)
func (r *e2Run) propertyChecks() {
	lead := r.leader()
	if lead == nil {
		return
	}
	// C10: exactly one log entry per (session, client message id) that was retried
	if len(r.retried) > 0 {
		first, _ := lead.logs.FirstIndex()
		last, _ := lead.logs.LastIndex()
		counts := map[[2]uint64]int{}
		for i := first; i <= last && first > 0; i++ {
			var l raft.Log
			if err := lead.logs.GetLog(i, &l); err != nil || l.Type != raft.LogCommand {
				continue
			}
			m := robust.NewMessageFromBytes(l.Data, robust.IdFromRaftIndex(l.Index))
			if m.Type == robust.IRCFromClient {
				counts[[2]uint64{m.Session.Id, m.ClientMessageId}]++
			}
		}
		for k, line := range r.retried {
			r.count("retried_ids_checked", 1)
			if counts[k] > 1 {
				r.violate("C10", "retry-applied-twice", "second-log-entry:"+strings.Fields(line)[0], "client message id %d of session %d was repeated after it had been applied and is in the leader's log %d times (%q)", k[1], k[0]-prodMessageOffsetE2, counts[k], trunc(line, 60))
			}
		}
	}
	// C11: refused requests had no effect: every victim still exists
	if r.prop == "C11" {
		p := ircserver.VerifPriv(lead.ircNow())
		for _, c := range r.clients {
			if c.session == "" {
				continue
			}
			if _, ok := p.Sess[[2]uint64{c.sid, 0}]; !ok {
				r.violate("C11", "unauthenticated-effect", "session-deleted-by-attacker", "session %s of client %d no longer exists although its owner never deleted it", c.session, c.idx)
			}
		}
		r.quietAttacks()
	}
	// C16: every replica uses the same configuration
	if r.prop == "C16" {
		var ref, refRev string
		for _, n := range r.nodes {
			ctx, cancel := context.WithTimeout(r.ctx, 10*time.Second)
			code, body, hdr, err := r.request(ctx, n.idx, "GET", "/config", basic(), "")
			cancel()
			if err != nil || code != 200 {
				r.violate("C16", "config-unavailable", "config-unavailable", "GET /config on node %d after convergence: %d %v", n.idx, code, err)
				continue
			}
			rev := hdr.Get("X-RobustIRC-Config-Revision")
			canon, cerr := canonicalConfig(string(body))
			if cerr != nil {
				r.violate("C16", "config-unparsable", "config-unparsable", "GET /config on node %d returns TOML that does not parse: %v", n.idx, cerr)
				continue
			}
			body = []byte(canon)
			if n.idx == 0 {
				ref, refRev = string(body), rev
			} else if string(body) != ref || rev != refRev {
				r.violate("C16", "config-diverged", "http-config-diverged", "GET /config differs between node 0 (revision %s) and node %d (revision %s):\n%s", refRev, n.idx, rev, firstDiff(ref, string(body)))
			}
			r.count("configs_compared", 1)
		}
		r.count("configs_accepted", int64(r.cfgAccepted))
	}
}

// canonicalConfig parses the TOML a node serves and renders the configuration canonically: an empty list
// or table means the same as an absent one; an empty captcha secret does NOT mean the same as an absent
// one (the server distinguishes them).
func canonicalConfig(toml string) (string, error) {
	cfg, err := config.FromString(toml)
	if err != nil {
		return "", err
	}
	b, err := json.Marshal(cfg)
	if err != nil {
		return "", err
	}
	var v interface{}
	if err := json.Unmarshal(b, &v); err != nil {
		return "", err
	}
	var prune func(x interface{}) interface{}
	prune = func(x interface{}) interface{} {
		switch t := x.(type) {
		case map[string]interface{}:
			for k, e := range t {
				p := prune(e)
				if k == "CaptchaHMACSecret" && p == "" {
					p = nil // an empty secret is no secret (0ac562c): same configuration as an unset one
				}
				if p == nil {
					delete(t, k)
				} else {
					t[k] = p
				}
			}
			if len(t) == 0 {
				return nil
			}
			return t
		case []interface{}:
			if len(t) == 0 {
				return nil
			}
			for i := range t {
				t[i] = prune(t[i])
			}
			return t
		}
		return x
	}
	out, err := json.MarshalIndent(prune(v), "", " ")
	if cfg.CaptchaHMACSecret == nil {
		return string(out) + "\nCaptchaHMACSecret: unset", err
	}
	return string(out) + "\nCaptchaHMACSecret: set", err
}

func TestVerifWorker(t *testing.T) {
	if os.Getenv("VERIF_MODE") == "" {
		t.Skip("simulation worker; run through /verif/bin/check")
	}
	e2T = t
	if code := core.WorkerMain(e2Engine{}); code != 0 {
		os.Exit(code)
	}
}
