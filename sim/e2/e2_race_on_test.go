//go:build race

package main

// built with the race detector (engine e2race): real parallelism, the stress actor is useful
const e2RaceBuild = true
