// Package verifdisk is the storage seam for raftstore (DESIGN §3.3 (2)): the check
// compiles a copy of internal/raftstore/leveldb.go in which leveldb.OpenFile /
// leveldb.RecoverFile are redirected here. Databases are real goleveldb databases
// on real files; the storage.Storage they run on is wrapped so that the simulator
// can count file operations and "kill the process" at operation k: the directory
// is copied at that instant (a consistent cut: every completed file operation
// survives, the in-flight write may be torn, memory is lost).
package verifdisk

import (
	"io"
	"os"
	"path/filepath"
	"sync"

	"github.com/syndtr/goleveldb/leveldb"
	"github.com/syndtr/goleveldb/leveldb/opt"
	"github.com/syndtr/goleveldb/leveldb/storage"
)

// Controller is shared by all databases opened while it is installed.
type Controller struct {
	mu sync.Mutex
	// Ops counts completed mutating file operations (write, sync, create, remove, rename, set-meta).
	Ops int
	// KillAt: when Ops reaches this value the directory of the operation's database is forked
	// *before* the operation is performed (0 = never). With Torn > 0 and a write operation, the
	// first Torn bytes (capped below the full length) of the write are performed before the fork.
	KillAt int
	Torn   int
	// ForkDir receives the copy.
	ForkDir string
	Forked  bool
	ForkErr error
	// ForkedDuring names the kind of the in-flight operation.
	ForkedDuring string
	Kinds        map[string]int
	// Decide, if set, is asked before every mutating file operation (under the controller's lock, so no
	// other file operation is in flight): it may order a kill at this very operation by returning a fork
	// function (called after the optional torn prefix of a write has been performed).
	Decide func(dir, kind string) (fork func(), torn int)
}

var (
	regMu   sync.Mutex
	current *Controller
	open    = map[string]storage.Storage{}
)

func Install(c *Controller) {
	regMu.Lock()
	defer regMu.Unlock()
	if c != nil && c.Kinds == nil {
		c.Kinds = map[string]int{}
	}
	current = c
}

func ctl() *Controller {
	regMu.Lock()
	defer regMu.Unlock()
	return current
}

// Release closes the storage of a database directory (leveldb.DB.Close does not
// close a storage it did not open itself).
func Release(dir string) {
	regMu.Lock()
	s := open[dir]
	delete(open, dir)
	regMu.Unlock()
	if s != nil {
		s.Close()
	}
}

func ReleaseAll() {
	regMu.Lock()
	all := open
	open = map[string]storage.Storage{}
	regMu.Unlock()
	for _, s := range all {
		s.Close()
	}
}

func OpenFile(path string, o *opt.Options) (*leveldb.DB, error) {
	Release(path)
	stor, err := storage.OpenFile(path, o.GetReadOnly())
	if err != nil {
		return nil, err
	}
	w := &stor2{Storage: stor, dir: path}
	db, err := leveldb.Open(w, o)
	if err != nil {
		stor.Close()
		return nil, err
	}
	regMu.Lock()
	open[path] = stor
	regMu.Unlock()
	return db, nil
}

func RecoverFile(path string, o *opt.Options) (*leveldb.DB, error) {
	Release(path)
	stor, err := storage.OpenFile(path, false)
	if err != nil {
		return nil, err
	}
	w := &stor2{Storage: stor, dir: path}
	db, err := leveldb.Recover(w, o)
	if err != nil {
		stor.Close()
		return nil, err
	}
	regMu.Lock()
	open[path] = stor
	regMu.Unlock()
	return db, nil
}

type stor2 struct {
	storage.Storage
	dir string
}

// op runs one mutating operation under the controller: count it, fork if it is the chosen one.
func (s *stor2) op(kind string, tornWrite func(n int), do func() error) error {
	c := ctl()
	if c == nil {
		return do()
	}
	c.mu.Lock()
	defer c.mu.Unlock()
	c.Ops++
	c.Kinds[kind]++
	if c.Decide != nil {
		if fork, torn := c.Decide(s.dir, kind); fork != nil {
			if tornWrite != nil && torn > 0 {
				tornWrite(torn)
			}
			fork()
		}
	}
	if c.KillAt > 0 && c.Ops == c.KillAt && !c.Forked {
		if tornWrite != nil && c.Torn > 0 {
			tornWrite(c.Torn)
		}
		c.Forked = true
		c.ForkedDuring = kind
		c.ForkErr = copyDir(s.dir, c.ForkDir)
	}
	return do()
}

func (s *stor2) SetMeta(fd storage.FileDesc) error {
	return s.op("setmeta", nil, func() error { return s.Storage.SetMeta(fd) })
}

func (s *stor2) Remove(fd storage.FileDesc) error {
	return s.op("remove", nil, func() error { return s.Storage.Remove(fd) })
}

func (s *stor2) Rename(a, b storage.FileDesc) error {
	return s.op("rename", nil, func() error { return s.Storage.Rename(a, b) })
}

func (s *stor2) Create(fd storage.FileDesc) (storage.Writer, error) {
	var w storage.Writer
	err := s.op("create", nil, func() error {
		var e error
		w, e = s.Storage.Create(fd)
		return e
	})
	if err != nil {
		return nil, err
	}
	return &writer2{Writer: w, s: s}, nil
}

type writer2 struct {
	storage.Writer
	s *stor2
}

func (w *writer2) Write(p []byte) (int, error) {
	done := 0
	var n int
	err := w.s.op("write", func(t int) {
		if t >= len(p) {
			t = len(p) - 1
		}
		if t > 0 {
			k, _ := w.Writer.Write(p[:t])
			done = k
		}
	}, func() error {
		k, e := w.Writer.Write(p[done:])
		n = done + k
		return e
	})
	return n, err
}

func (w *writer2) Sync() error {
	return w.s.op("sync", nil, func() error { return w.Writer.Sync() })
}

// ForkNow copies the directory at this instant (kill between two API calls). It holds the
// controller's lock so that no file operation (e.g. of a background compaction) is in flight.
func ForkNow(src, dst string) error {
	c := ctl()
	if c != nil {
		c.mu.Lock()
		defer c.mu.Unlock()
	}
	return copyDir(src, dst)
}

// CopyTree copies a directory recursively (used to fork a whole node directory), skipping LOCK files
// and the volatile output databases.
func CopyTree(src, dst string) error {
	return filepath.Walk(src, func(p string, fi os.FileInfo, err error) error {
		if err != nil {
			return nil
		}
		rel, _ := filepath.Rel(src, p)
		if fi.IsDir() {
			if len(fi.Name()) > 17 && fi.Name()[:17] == "tmp-outputstream-" {
				return filepath.SkipDir
			}
			return os.MkdirAll(filepath.Join(dst, rel), 0700)
		}
		if fi.Name() == "LOCK" {
			return nil
		}
		in, err := os.Open(p)
		if err != nil {
			return nil
		}
		defer in.Close()
		out, err := os.Create(filepath.Join(dst, rel))
		if err != nil {
			return err
		}
		defer out.Close()
		_, err = io.Copy(out, in)
		return err
	})
}

func copyDir(src, dst string) error {
	if err := os.MkdirAll(dst, 0700); err != nil {
		return err
	}
	ents, err := os.ReadDir(src)
	if err != nil {
		return err
	}
	for _, e := range ents {
		if e.IsDir() || e.Name() == "LOCK" {
			continue
		}
		in, err := os.Open(filepath.Join(src, e.Name()))
		if err != nil {
			return err
		}
		out, err := os.Create(filepath.Join(dst, e.Name()))
		if err != nil {
			in.Close()
			return err
		}
		_, err = io.Copy(out, in)
		in.Close()
		out.Close()
		if err != nil {
			return err
		}
	}
	return nil
}
