package robusthttp

// Added by /verif to a scratch copy of github.com/robustirc/internal (the module is
// replaced with -modfile; /repo and the module cache are untouched). It uses the
// override point the package documents for custom builds: clientImpl/transportImpl.

import (
	"net/http"

	"github.com/robustirc/rafthttp"
)

// VerifClient, if set, supplies every client the system asks for (raft transport,
// health/status probes).
var VerifClient func(password string, deadlined bool) rafthttp.Doer

// VerifTransport, if set, supplies the round tripper used for proxying to the leader.
var VerifTransport func(deadlined bool) http.RoundTripper

func init() {
	origClient, origTransport := clientImpl, transportImpl
	clientImpl = func(password string, deadlined bool) rafthttp.Doer {
		if VerifClient != nil {
			return VerifClient(password, deadlined)
		}
		return origClient(password, deadlined)
	}
	transportImpl = func(deadlined bool) http.RoundTripper {
		if VerifTransport != nil {
			return VerifTransport(deadlined)
		}
		return origTransport(deadlined)
	}
}
