//go:debug asynctimerchan=0
package timesafeguard

// C19 harness: the real start-up time check (SynchronizedWithNetwork /
// SynchronizedWithMasterAndNetwork -> health.GetServerStatus ->
// robusthttp.Client) against simulated peers inside a synctest bubble. Each
// peer has a true clock offset, a request delay and a response delay; it may
// drop the request (5s timeout in virtual time) or answer with an error.

import (
	"bytes"
	"encoding/json"
	"errors"
	"fmt"
	"io"
	"net/http"
	"os"
	"strings"
	"sync"
	"testing"
	"testing/synctest"
	"time"

	"github.com/robustirc/internal/health"
	"github.com/robustirc/internal/robusthttp"
	"github.com/robustirc/rafthttp"
	"github.com/robustirc/robustirc/internal/verifsim/core"
)

type c19Peer struct {
	OffMs  int64  `json:"off_ms"`              // true clock offset of the peer (peer - local)
	OffY   int    `json:"off_years,omitempty"` // additionally: whole years (a clock that is absurdly wrong is still wrong)
	D1Ms   int64  `json:"d1_ms"`               // request delay
	D2Ms   int64  `json:"d2_ms"`               // response delay
	Answer string `json:"answer"`              // ok | drop | 500 | refuse | garbage
}

type c19Scenario struct {
	Engine   string    `json:"engine"`
	API      string    `json:"api"` // network | master
	Disabled bool      `json:"disabled"`
	Steps    []c19Peer `json:"steps"` // steps = peers (peer 0 is the join target for api=master)
}

type c19Engine struct{}

func (c19Engine) Generate(seed uint64, prop, tier string) (json.RawMessage, error) {
	g := core.NewSource(seed).Stream("gen")
	sc := c19Scenario{Engine: "c19", API: g.Pick([]string{"network", "network", "master"}), Disabled: g.Chance(1, 10)}
	n := g.Range(0, 5)
	if sc.API == "master" && n == 0 {
		n = 1
	}
	for i := 0; i < n; i++ {
		p := c19Peer{Answer: "ok"}
		switch g.Intn(10) {
		case 0, 1, 2:
			p.OffMs = int64(g.Range(-300, 300))
		case 3, 4, 5, 6:
			// concentrated around +-2s
			sign := int64(1)
			if g.Chance(1, 2) {
				sign = -1
			}
			p.OffMs = sign * int64(g.Range(1200, 2800))
		case 7:
			p.OffMs = int64(g.Range(-3600000, 3600000))
		case 8:
			p.OffMs = int64(g.Pick2(-2000, 2000, -1999, 1999, -2001, 2001))
		default:
			p.OffMs = 0
		}
		if g.Chance(1, 25) {
			p.OffY = g.Pick2(-1900, -400, -293, -292, -100, -56, 56, 100, 292, 293, 400, 5000)
		}
		switch g.Intn(6) {
		case 0:
			p.D1Ms, p.D2Ms = 0, 0
		case 1, 2:
			p.D1Ms, p.D2Ms = int64(g.Range(0, 150)), int64(g.Range(0, 150))
		case 3, 4:
			p.D1Ms, p.D2Ms = int64(g.Range(0, 900)), int64(g.Range(0, 900))
		default:
			p.D1Ms, p.D2Ms = int64(g.Range(0, 3000)), int64(g.Range(0, 3000))
		}
		if !(sc.API == "master" && i == 0) {
			switch g.Intn(8) {
			case 0:
				p.Answer = "drop"
			case 1:
				p.Answer = g.Pick([]string{"500", "refuse", "garbage"})
			}
		}
		sc.Steps = append(sc.Steps, p)
	}
	return json.Marshal(sc)
}

type c19Doer struct {
	peers    map[string]*c19Peer
	names    []string
	answered map[string]time.Time // peer -> CurrentTime it reported
	asked    map[string]int
	mu       sync.Mutex
}

type bodyCloser struct{ io.Reader }

func (bodyCloser) Close() error { return nil }

func (d *c19Doer) Do(req *http.Request) (*http.Response, error) {
	host := req.URL.Host
	p := d.peers[host]
	if p == nil {
		return nil, errors.New("no such host " + host)
	}
	d.mu.Lock()
	d.asked[host]++
	d.mu.Unlock()
	ctx := req.Context()
	wait := func(ms int64) error {
		if ms <= 0 {
			return ctx.Err()
		}
		t := time.NewTimer(time.Duration(ms) * time.Millisecond)
		defer t.Stop()
		select {
		case <-t.C:
			return nil
		case <-ctx.Done():
			return ctx.Err()
		}
	}
	switch p.Answer {
	case "refuse":
		return nil, errors.New("connection refused")
	case "drop":
		<-ctx.Done()
		return nil, ctx.Err()
	}
	if err := wait(p.D1Ms); err != nil {
		return nil, err
	}
	// the peer reads its clock now
	remote := time.Now().AddDate(p.OffY, 0, 0).Add(time.Duration(p.OffMs) * time.Millisecond)
	if err := wait(p.D2Ms); err != nil {
		return nil, err
	}
	switch p.Answer {
	case "500":
		return &http.Response{StatusCode: 500, Status: "500 Internal Server Error", Body: bodyCloser{strings.NewReader("boom")}, Header: http.Header{}}, nil
	case "garbage":
		return &http.Response{StatusCode: 200, Status: "200 OK", Body: bodyCloser{strings.NewReader("<html>not json")}, Header: http.Header{}}, nil
	}
	st := health.ServerStatus{State: "Follower", Leader: d.names[0], Peers: append([]string{"self:1"}, d.names...), CurrentTime: remote}
	b, _ := json.Marshal(&st)
	d.mu.Lock()
	d.answered[host] = remote
	d.mu.Unlock()
	return &http.Response{StatusCode: 200, Status: "200 OK", Body: bodyCloser{bytes.NewReader(b)}, Header: http.Header{"Content-Type": []string{"application/json"}}}, nil
}

var c19T *testing.T

func (c19Engine) Execute(raw json.RawMessage, prop string) (*core.Result, error) {
	var sc c19Scenario
	if err := json.Unmarshal(raw, &sc); err != nil {
		return nil, err
	}
	res := &core.Result{}
	tr := &core.Trace{}
	bubble := func(f func(t *testing.T)) {
		defer func() {
			// a request the code under test abandoned may still be waiting in the simulated wire when the
			// bubble ends; the verdict has been recorded by then
			if rec := recover(); rec != nil {
				if s := fmt.Sprint(rec); !strings.Contains(s, "main bubble goroutine has exited but blocked goroutines remain") {
					panic(rec)
				}
				res.Add("abandoned_requests_at_end", 1)
			}
		}()
		synctest.Test(c19T, f)
	}
	bubble(func(t *testing.T) {
		d := &c19Doer{peers: map[string]*c19Peer{}, answered: map[string]time.Time{}, asked: map[string]int{}}
		for i := range sc.Steps {
			name := fmt.Sprintf("peer%d:60667", i)
			d.names = append(d.names, name)
			d.peers[name] = &sc.Steps[i]
		}
		if sc.API == "master" && (len(d.names) == 0 || sc.Steps[0].Answer != "ok" || sc.Steps[0].D1Ms+sc.Steps[0].D2Ms >= 4500) {
			// the node to join must answer: otherwise the binary exits (log.Fatalf), which is not the subject here
			return
		}
		if len(d.names) == 0 {
			d.names = []string{}
		}
		robusthttp.VerifClient = func(password string, deadlined bool) rafthttp.Doer { return d }
		defer func() { robusthttp.VerifClient = nil }()
		old := *DisableTimesafeguard
		*DisableTimesafeguard = sc.Disabled
		defer func() { *DisableTimesafeguard = old }()
		t0 := time.Now()
		var err error
		if sc.API == "master" {
			err = SynchronizedWithMasterAndNetwork("self:1", d.names[0], "pw")
		} else {
			// the node's own address may stand anywhere in the configuration
			pos := 0
			if len(d.names) > 0 {
				pos = int(hashPeers(sc) % uint64(len(d.names)+1))
			}
			var cfg []string
			cfg = append(cfg, d.names[:pos]...)
			cfg = append(cfg, "self:1")
			cfg = append(cfg, d.names[pos:]...)
			err = SynchronizedWithNetwork("self:1", cfg, "pw")
		}
		res.SimMillis = time.Since(t0).Milliseconds()
		// "answered" = the peer's reply reached the node within the time the HTTP client grants a request
		// (its own timeout cancels the request otherwise). A decision taken before that time has passed is
		// judged against the replies that were still on their way.
		if len(d.answered) < len(d.asked) {
			time.Sleep(6 * time.Second)
		}
		d.mu.Lock()
		defer d.mu.Unlock()
		tr.Log("api=%s disabled=%v err=%v answered=%d", sc.API, sc.Disabled, err != nil, len(d.answered))
		res.Add("peers", int64(len(sc.Steps)))
		res.Add("answered", int64(len(d.answered)))
		if err == nil {
			res.Add("accepted", 1)
		} else {
			res.Add("refused", 1)
		}
		// --- oracle ---
		var offenders []string
		allTiny := true
		for name, p := range d.peers {
			_, ans := d.answered[name]
			if ans {
				if p.OffMs >= 2000 || p.OffMs <= -2000 || p.OffY != 0 {
					offenders = append(offenders, name)
					res.Add("answering_offenders", 1)
					if p.OffY != 0 {
						res.Add("answering_offenders_years_off", 1)
					}
				}
				if p.OffMs != 0 || p.OffY != 0 || p.D1Ms+p.D2Ms > 200 {
					allTiny = false
				}
				if (p.OffMs > 1500 && p.OffMs < 2500) || (p.OffMs < -1500 && p.OffMs > -2500) {
					res.Add("offsets_near_threshold", 1)
				}
			} else {
				res.Add("silent_peers", 1)
			}
		}
		// every peer of the network is asked for its time (a peer that is never asked cannot "answer")
		for name := range d.peers {
			if d.asked[name] == 0 {
				p := d.peers[name]
				res.Violate("C19", "peer-not-asked", "peer-not-asked", fmt.Sprintf("%s (true offset %dms, would answer: %s) was never asked for its time although it is part of the network (api=%s, %d peers)", name, p.OffMs, p.Answer, sc.API, len(sc.Steps)), 0)
			}
		}
		switch {
		case sc.Disabled:
			if err != nil {
				res.Violate("C19", "refused-although-disabled", "refused-although-disabled", fmt.Sprintf("safeguard disabled but the check returned %v", err), 0)
			}
		case err == nil && len(offenders) > 0:
			var desc []string
			for _, o := range offenders {
				p := d.peers[o]
				desc = append(desc, fmt.Sprintf("%s offset=%dy%dms request-delay=%dms response-delay=%dms", o, p.OffY, p.OffMs, p.D1Ms, p.D2Ms))
			}
			silent := res.Stats["silent_peers"] > 0
			sig := "accepted-offender"
			if silent {
				sig = "accepted-offender-with-silent-peer"
			}
			res.Violate("C19", "accepted-offender", sig, fmt.Sprintf("the node would join although answering peer(s) have a true clock difference >= 2s: %s (api=%s, %d peers, %d answered)", strings.Join(desc, "; "), sc.API, len(sc.Steps), len(d.answered)), 0)
		case err != nil:
			// offending peers are reported: the remote time each offender answered with appears in the error
			for _, o := range offenders {
				if !strings.Contains(err.Error(), d.answered[o].String()) {
					res.Violate("C19", "offender-not-reported", "offender-not-reported", fmt.Sprintf("refused, but the report does not name offender %s (remote time %v): %v", o, d.answered[o], err), 0)
				}
			}
			// peers that did not answer are ignored: if everybody who answered is exactly in sync with
			// negligible delays, silent peers alone must not make the node refuse
			if len(offenders) == 0 && allTiny {
				res.Violate("C19", "refused-without-offender", "refused-without-offender", fmt.Sprintf("refused although every answering peer is exactly in sync (delays <= 200ms); silent peers: %d; error: %v", res.Stats["silent_peers"], err), 0)
			}
		}
		res.Nontrivial = len(d.answered) >= 1 && !sc.Disabled
	})
	res.Steps = len(sc.Steps)
	res.Fingerprint = tr.Digest() + fmt.Sprintf("/%x", hashPeers(sc))
	return res, nil
}

func hashPeers(sc c19Scenario) uint64 {
	b, _ := json.Marshal(sc)
	var h uint64 = 1469598103934665603
	for _, c := range b {
		h ^= uint64(c)
		h *= 1099511628211
	}
	return h
}

func TestVerifWorker(t *testing.T) {
	if os.Getenv("VERIF_MODE") == "" {
		t.Skip("simulation worker; run through /verif/bin/check")
	}
	c19T = t
	if code := core.WorkerMain(c19Engine{}); code != 0 {
		os.Exit(code)
	}
}
