package raftstore

// C09 harness: the real LevelDBStore (real goleveldb on real files, through the
// verifdisk storage seam) against a plain map model, with close/reopen, kill at
// storage-operation granularity (+ torn write) and encoding flips as operations.

import (
	"bytes"
	"encoding/binary"
	"encoding/json"
	"fmt"
	"os"
	"path/filepath"
	"reflect"
	"runtime/debug"
	"sort"
	"strings"
	"testing"
	"time"

	"github.com/golang/protobuf/proto"
	"github.com/hashicorp/raft"
	"github.com/robustirc/robustirc/internal/robust"
	"github.com/robustirc/robustirc/internal/verifsim/core"
	"github.com/robustirc/robustirc/internal/verifsim/verifdisk"
	"google.golang.org/protobuf/types/known/timestamppb"

	pb "github.com/robustirc/robustirc/internal/proto"
)

type c09Step struct {
	K     string `json:"k"`
	Mode  string `json:"mode,omitempty"` // store: append | over | big | gap
	N     int    `json:"n,omitempty"`    // store: batch size; bulk: span
	Type  int    `json:"type,omitempty"` // raft.LogType
	Term  uint64 `json:"term,omitempty"`
	Pay   string `json:"pay,omitempty"`   // payload kind
	Ext   string `json:"ext,omitempty"`   // extensions
	At    int    `json:"at,omitempty"`    // appended-at kind
	Proto bool   `json:"proto,omitempty"` // use StoreLogProto
	A     int    `json:"a,omitempty"`     // generic selector (which existing index / key)
	B     int    `json:"b,omitempty"`
	Flip  bool   `json:"flip,omitempty"` // reopen with the other encoding
	Kill  int    `json:"kill,omitempty"` // >0: kill the process at the Kill-th storage operation of this step
	Torn  int    `json:"torn,omitempty"`
	Val   string `json:"val,omitempty"`
}

type c09Scenario struct {
	Engine string    `json:"engine"`
	Proto  bool      `json:"proto"` // initial encoding
	Steps  []c09Step `json:"steps"`
}

type c09Engine struct{}

var c09Big = []uint64{1 << 32, 1<<62 - 2, 1 << 62, 0x737461626c657373, 0x737461626c657374, 0x737461626c657375, 0x7fffffffffffffff, 0x8000000000000000, ^uint64(0) - 5}
var c09Keys = []string{"CurrentTerm", "LastVoteTerm", "LastVoteCand", "", "\x00\x00\x00\x00\x00\x00\x00\x05", "stablestore-x", "k\xff",
	// long keys that differ only far from the start, and a key that is a prefix of another
	"peer-address/robustirc-1.example.net:60667", "peer-address/robustirc-2.example.net:60667", "peer-address/robustirc-", "peer-address/robustirc-1.example.net:60667/x",
	strings.Repeat("k", 64) + "a", strings.Repeat("k", 64) + "b"}

func (c09Engine) Generate(seed uint64, prop, tier string) (json.RawMessage, error) {
	g := core.NewSource(seed).Stream("gen")
	sc := c09Scenario{Engine: "c09", Proto: g.Chance(1, 2)}
	n := g.Range(5, 40)
	big := g.Chance(1, 4)
	for i := 0; i < n; i++ {
		var st c09Step
		switch r := g.Intn(100); {
		case r < 1 && i < 6:
			// a long log (compaction later deletes more than 1000 entries in one range)
			st = c09Step{K: "store", Mode: "append", N: g.Range(1100, 2600), Type: g.Pick2(0, 0, 1), Term: 2, Pay: "json", Ext: g.Pick([]string{"", "x"}), At: 1}
		case r < 35:
			st = c09Step{K: "store", Mode: "append", N: g.Range(1, 4), Type: g.Pick2(0, 0, 0, 1, 2, 3, 4), Term: uint64(g.Range(1, 5)), Pay: g.Pick([]string{"json", "proto", "jsonid", "protoid", "text", "bin", "empty", "p"}), Ext: g.Pick([]string{"", "", "x", "\x00\xff"}), At: g.Intn(4), Proto: g.Chance(1, 4)}
			switch m := g.Intn(12); {
			case m == 0:
				st.Mode = "over"
				st.A = g.Intn(50)
			case m == 1:
				st.Mode = "gap"
				st.A = g.Range(2, 9)
			case m == 2 && big:
				st.Mode = "big"
				st.A = g.Intn(len(c09Big))
			}
		case r < 47:
			st = c09Step{K: "delrange", Mode: g.Pick([]string{"prefix", "prefix", "suffix", "middle", "all", "empty", "beyond"}), A: g.Intn(50), B: g.Intn(50)}
		case r < 57:
			st = c09Step{K: "get", A: g.Intn(60), Mode: g.Pick([]string{"existing", "existing", "missing", "deleted"})}
		case r < 62:
			st = c09Step{K: "firstlast"}
		case r < 67:
			st = c09Step{K: "bulk", A: g.Intn(50), N: g.Range(1, 20)}
		case r < 77:
			st = c09Step{K: "set", A: g.Intn(len(c09Keys)), Val: g.Pick([]string{"", "v1", "\x00\x00\x00\x00\x00\x00\x00\x07", "p-looks-like-proto", strings.Repeat("z", 300)})}
		case r < 82:
			st = c09Step{K: "setu", A: g.Intn(len(c09Keys)), B: g.Pick2(0, 1, 7, 1<<31, -1)}
		case r < 88:
			st = c09Step{K: g.Pick([]string{"getk", "getu"}), A: g.Intn(len(c09Keys))}
		default:
			st = c09Step{K: "reopen", Flip: g.Chance(1, 3)}
		}
		if g.Chance(1, 6) && st.K != "get" && st.K != "firstlast" && st.K != "bulk" && st.K != "getk" && st.K != "getu" {
			st.Kill = g.Range(1, 6)
			if g.Chance(1, 2) {
				st.Torn = g.Range(1, 40)
			}
		}
		sc.Steps = append(sc.Steps, st)
	}
	return json.Marshal(sc)
}

type c09Entry struct {
	raft.Log
	mayConvert bool // a protobuf-mode open happened after it was stored
}

type c09Model struct {
	logs   map[uint64]*c09Entry
	stable map[string][]byte
}

func (m *c09Model) clone() *c09Model {
	c := &c09Model{logs: map[uint64]*c09Entry{}, stable: map[string][]byte{}}
	for k, v := range m.logs {
		e := *v
		c.logs[k] = &e
	}
	for k, v := range m.stable {
		c.stable[k] = append([]byte(nil), v...)
	}
	return c
}

func (m *c09Model) indexes() []uint64 {
	var out []uint64
	for k := range m.logs {
		out = append(out, k)
	}
	sort.Slice(out, func(a, b int) bool { return out[a] < out[b] })
	return out
}

func payload(kind string, idx uint64, salt int) []byte {
	msg := robust.Message{Session: robust.Id{Id: 7}, Type: robust.IRCFromClient, Data: fmt.Sprintf("PRIVMSG #c :entry %d/%d ünï", idx, salt), ClientMessageId: uint64(salt), UnixNano: 946684800000000000 + int64(salt), RemoteAddr: "10.0.0.1"}
	switch kind {
	case "jsonid", "protoid":
		msg.Id = robust.Id{Id: idx + 1000, Reply: 0}
	}
	switch kind {
	case "json", "jsonid":
		b, _ := json.Marshal(&msg)
		return b
	case "proto", "protoid":
		b, _ := proto.Marshal(msg.ProtoMessage())
		return append([]byte{'p'}, b...)
	case "text":
		return []byte(fmt.Sprintf("opaque %d", salt))
	case "bin":
		return []byte{0, 1, 2, 0xff, 'p', byte(salt)}
	case "p":
		return []byte("p")
	}
	return nil
}

func appendedAt(kind int, salt int) time.Time {
	switch kind {
	case 0:
		return time.Time{}
	case 1:
		return time.Unix(946684800+int64(salt), 123456789).UTC()
	case 2:
		return time.Unix(1700000000, int64(salt))
	}
	return time.Unix(0, int64(salt))
}

type c09Run struct {
	res     *core.Result
	tr      *core.Trace
	dir     string
	root    string
	gen     int
	proto   bool
	s       *LevelDBStore
	m       *c09Model
	step    int
	salt    int
	deleted []uint64
}

func (r *c09Run) violate(class, sig, f string, a ...interface{}) {
	r.res.Violate("C09", class, sig, fmt.Sprintf("step %d: ", r.step)+fmt.Sprintf(f, a...), r.step)
}

func sameMsg(a, b []byte, idx uint64) (ok bool) {
	defer func() {
		if recover() != nil {
			ok = false
		}
	}()
	ma := robust.NewMessageFromBytes(a, robust.IdFromRaftIndex(idx))
	mb := robust.NewMessageFromBytes(b, robust.IdFromRaftIndex(idx))
	return reflect.DeepEqual(ma, mb)
}

// verifyAgainst compares everything the store can be asked with a model. It returns "" or a description.
func (r *c09Run) verifyAgainst(m *c09Model) (string, string) {
	idxs := m.indexes()
	first, err := r.s.FirstIndex()
	if err != nil {
		return "firstindex-error", err.Error()
	}
	last, err := r.s.LastIndex()
	if err != nil {
		return "lastindex-error", err.Error()
	}
	wf, wl := uint64(0), uint64(0)
	if len(idxs) > 0 {
		wf, wl = idxs[0], idxs[len(idxs)-1]
	}
	if first != wf {
		return "firstindex", fmt.Sprintf("FirstIndex() = %d, stored and not deleted: %v (want %d)", first, idxs, wf)
	}
	if last != wl {
		return "lastindex", fmt.Sprintf("LastIndex() = %d, stored and not deleted: %v (want %d)", last, idxs, wl)
	}
	for _, i := range idxs {
		if c, d := r.checkGet(m, i); c != "" {
			return c, d
		}
	}
	probes := append([]uint64{}, r.deleted...)
	probes = append(probes, 0, wl+1, wf-1, ^uint64(0))
	for _, i := range probes {
		if _, ok := m.logs[i]; ok {
			continue
		}
		var l raft.Log
		if err := r.s.GetLog(i, &l); err != raft.ErrLogNotFound {
			return "missing-entry-error", fmt.Sprintf("GetLog(%d) of a missing entry returned %v (entry %+v), want raft.ErrLogNotFound", i, err, l)
		}
	}
	var keys []string
	for k := range m.stable {
		keys = append(keys, k)
	}
	sort.Strings(keys)
	for _, k := range c09Keys {
		want, has := m.stable[k]
		got, err := r.s.Get([]byte(k))
		if err != nil {
			return "stable-get-error", fmt.Sprintf("Get(%q): %v", k, err)
		}
		if has && !bytes.Equal(got, want) {
			return "stable-value", fmt.Sprintf("Get(%q) = %q, last value written is %q", k, got, want)
		}
		if !has && len(got) != 0 {
			return "stable-phantom", fmt.Sprintf("Get(%q) = %q for a key never written", k, got)
		}
		if has && len(want) == 8 {
			u, err := r.s.GetUint64([]byte(k))
			if err != nil || u != binary.BigEndian.Uint64(want) {
				return "stable-uint64", fmt.Sprintf("GetUint64(%q) = %d, %v; want %d", k, u, err, binary.BigEndian.Uint64(want))
			}
		}
	}
	return "", ""
}

func (r *c09Run) checkGet(m *c09Model, i uint64) (string, string) {
	want := m.logs[i]
	var got raft.Log
	if err := r.s.GetLog(i, &got); err != nil {
		return "lost-entry", fmt.Sprintf("GetLog(%d) = %v, but the entry was stored and not deleted", i, err)
	}
	if got.Index != want.Index || got.Term != want.Term || got.Type != want.Type {
		return "entry-header", fmt.Sprintf("GetLog(%d) = index %d term %d type %d, stored index %d term %d type %d", i, got.Index, got.Term, got.Type, want.Index, want.Term, want.Type)
	}
	if !bytes.Equal(got.Extensions, want.Extensions) {
		return "entry-extensions", fmt.Sprintf("GetLog(%d): extensions %q, stored %q", i, got.Extensions, want.Extensions)
	}
	if !got.AppendedAt.Equal(want.AppendedAt) {
		return "entry-appendedat", fmt.Sprintf("GetLog(%d): append time %v, stored %v", i, got.AppendedAt, want.AppendedAt)
	}
	if !bytes.Equal(got.Data, want.Data) {
		if want.mayConvert && want.Type == raft.LogCommand && sameMsg(got.Data, want.Data, i) {
			r.res.Add("converted_payloads_compared", 1)
			return "", ""
		}
		return "entry-data", fmt.Sprintf("GetLog(%d): data %q, stored %q (converted=%v)", i, got.Data, want.Data, want.mayConvert)
	}
	return "", ""
}

func (r *c09Run) open(flip bool) error {
	if flip {
		r.proto = !r.proto
		r.res.Add("encoding_flips", 1)
	}
	s, err := NewLevelDBStore(r.dir, false, r.proto)
	if err != nil {
		return err
	}
	r.s = s
	if r.proto {
		for _, e := range r.m.logs {
			e.mayConvert = true
		}
	}
	return nil
}

func (r *c09Run) closeStore() {
	if r.s != nil {
		r.s.Close()
		r.s = nil
	}
	verifdisk.Release(r.dir)
}

func (c09Engine) Execute(raw json.RawMessage, prop string) (*core.Result, error) {
	var sc c09Scenario
	if err := json.Unmarshal(raw, &sc); err != nil {
		return nil, err
	}
	res := &core.Result{}
	root, err := os.MkdirTemp("", "c09-")
	if err != nil {
		return nil, err
	}
	defer os.RemoveAll(root)
	r := &c09Run{res: res, tr: &core.Trace{}, root: root, dir: filepath.Join(root, "db0"), proto: sc.Proto, m: &c09Model{logs: map[uint64]*c09Entry{}, stable: map[string][]byte{}}}
	ctl := &verifdisk.Controller{}
	verifdisk.Install(ctl)
	defer func() {
		r.closeStore()
		verifdisk.ReleaseAll()
		verifdisk.Install(nil)
	}()
	if err := r.open(false); err != nil {
		return nil, err
	}
	for si, st := range sc.Steps {
		if len(res.Violations) > 0 {
			break
		}
		r.step = si
		r.salt++
		before := r.m.clone()
		// arm the kill
		ctl.Forked, ctl.ForkErr, ctl.KillAt, ctl.Torn = false, nil, 0, 0
		if st.Kill > 0 {
			r.gen++
			ctl.ForkDir = filepath.Join(root, fmt.Sprintf("db%d", r.gen))
			ctl.KillAt = ctl.Ops + st.Kill
			ctl.Torn = st.Torn
		}
		var opErr error
		func() {
			defer func() {
				if p := recover(); p != nil {
					r.violate("panic", "panic:"+st.K, "store operation panicked: %v\n%s", p, debug.Stack())
				}
			}()
			opErr = r.doStep(st)
		}()
		if len(res.Violations) > 0 {
			break
		}
		if opErr != nil {
			r.violate("op-error", "op-error:"+st.K, "operation %s failed: %v", st.K, opErr)
			break
		}
		r.tr.Log("%s %s a=%d n=%d kill=%d", st.K, st.Mode, st.A, st.N, st.Kill)
		if st.Kill > 0 {
			// the process dies: either inside the operation (fork taken at storage op k) or right after it
			inflight := ctl.Forked
			if ctl.ForkErr != nil {
				return nil, fmt.Errorf("fork: %v", ctl.ForkErr)
			}
			ctl.KillAt = 0
			forkDir := ctl.ForkDir
			if !inflight {
				// kill between operations: everything completed survives
				r.closeStoreForFork(forkDir)
			} else {
				r.closeStore()
				res.Add("kills_inside_operation", 1)
				res.Add("kill_during_"+ctl.ForkedDuring, 1)
				if st.Torn > 0 && ctl.ForkedDuring == "write" {
					res.Add("torn_writes", 1)
				}
			}
			r.dir = forkDir
			after := r.m
			if err := r.open(false); err != nil {
				r.violate("reopen-after-kill", "reopen-after-kill", "the database killed during %s (storage op %s) cannot be opened again: %v", st.K, ctl.ForkedDuring, err)
				break
			}
			res.Add("kills", 1)
			if !inflight {
				if c, d := r.verifyAgainst(after); c != "" {
					r.violate(c, c+":after-kill", "after a kill right after %s: %s", st.K, d)
				}
			} else {
				// the in-flight operation is absent or complete - never partial; everything acknowledged before is present
				if r.proto {
					for _, e := range before.logs {
						e.mayConvert = true
					}
				}
				c1, d1 := r.verifyAgainst(after)
				if c1 != "" {
					c0, d0 := r.verifyAgainst(before)
					if c0 != "" {
						r.violate(c0, c0+":kill-inside", "after a kill inside %s (at its storage op #%d, a %s%s) the store matches neither the state before the operation (%s) nor after it (%s)", st.K, st.Kill, ctl.ForkedDuring, tornStr(st.Torn), d0, d1)
					} else {
						r.m = before // the operation was lost as a whole: allowed, it was never acknowledged
						res.Add("inflight_op_absent", 1)
					}
				} else {
					res.Add("inflight_op_complete", 1)
				}
			}
			continue
		}
		if st.K == "store" || st.K == "delrange" || st.K == "set" || st.K == "setu" || st.K == "reopen" {
			if c, d := r.verifyAgainst(r.m); c != "" {
				r.violate(c, c+":"+st.K, "after %s %s: %s", st.K, st.Mode, d)
			}
		}
	}
	res.Steps = len(sc.Steps)
	res.Fingerprint = r.tr.Digest()
	res.Nontrivial = res.Stats["stores"] >= 2 && (res.Stats["reopens"]+res.Stats["kills"] >= 1) && res.Stats["delranges_nonempty"] >= 1
	return res, nil
}

func tornStr(t int) string {
	if t > 0 {
		return fmt.Sprintf(" torn after %d bytes", t)
	}
	return ""
}

// closeStoreForFork: kill between two operations = copy the directory now.
func (r *c09Run) closeStoreForFork(forkDir string) {
	// take the copy while the database is still open (no clean shutdown)
	if err := verifdisk.ForkNow(r.dir, forkDir); err != nil {
		panic(err)
	}
	r.closeStore()
}

func copyDirC09(src, dst string) {
	os.MkdirAll(dst, 0700)
	ents, _ := os.ReadDir(src)
	for _, e := range ents {
		if e.IsDir() || e.Name() == "LOCK" {
			continue
		}
		b, err := os.ReadFile(filepath.Join(src, e.Name()))
		if err == nil {
			os.WriteFile(filepath.Join(dst, e.Name()), b, 0600)
		}
	}
}

func (r *c09Run) doStep(st c09Step) error {
	m := r.m
	idxs := m.indexes()
	pick := func(k int) (uint64, bool) {
		if len(idxs) == 0 {
			return 0, false
		}
		return idxs[k%len(idxs)], true
	}
	switch st.K {
	case "store":
		n := st.N
		if n < 1 || (st.Proto && st.Kill > 0) {
			n = 1 // StoreLogProto stores one entry per call; a kill is placed inside one call
		}
		var start uint64 = 1
		if len(idxs) > 0 {
			start = idxs[len(idxs)-1] + 1
		}
		switch st.Mode {
		case "over":
			if i, ok := pick(st.A); ok {
				start = i
			}
		case "gap":
			start += uint64(st.A)
		case "big":
			start = c09Big[st.A%len(c09Big)]
		}
		if start == 0 || start+uint64(n) < start || start+uint64(n) == ^uint64(0) {
			return nil // index 2^64-1 is left out: max+1 is not representable (unreachable in practice)
		}
		var batch []*raft.Log
		for k := 0; k < n; k++ {
			idx := start + uint64(k)
			if idx < start {
				break // overflow
			}
			pay := st.Pay
			typ := raft.LogType(st.Type)
			if typ == raft.LogCommand && (pay == "text" || pay == "bin" || pay == "empty" || pay == "p") {
				pay = "json" // a command entry always carries a replicated message (DESIGN §3.8)
			}
			l := &raft.Log{Index: idx, Term: st.Term, Type: typ, Data: payload(pay, idx, r.salt*10+k), AppendedAt: appendedAt(st.At+k, r.salt)}
			// entries of one batch differ in whether they carry extensions
			if st.Ext != "" && (k+st.A)%2 == 0 {
				l.Extensions = []byte(fmt.Sprintf("%s#%d", st.Ext, idx%7))
			}
			batch = append(batch, l)
		}
		if st.Proto {
			for _, l := range batch {
				p := &pb.RaftLog{Index: l.Index, Term: l.Term, Type: pb.RaftLog_LogType(l.Type), Data: l.Data, Extensions: l.Extensions, AppendedAt: timestamppb.New(l.AppendedAt)}
				if err := r.s.StoreLogProto(p); err != nil {
					return err
				}
				m.logs[l.Index] = &c09Entry{Log: *l}
			}
		} else {
			var err error
			if len(batch) == 1 {
				err = r.s.StoreLog(batch[0])
			} else {
				err = r.s.StoreLogs(batch)
			}
			if err != nil {
				return err
			}
			for _, l := range batch {
				m.logs[l.Index] = &c09Entry{Log: *l}
			}
		}
		r.res.Add("stores", 1)
		if st.Mode == "big" {
			r.res.Add("stores_big_index", 1)
		}
		if n > 1000 {
			r.res.Add("stores_over_1000_entries", 1)
		}
	case "delrange":
		if len(idxs) == 0 && st.Mode != "beyond" {
			return nil
		}
		var lo, hi uint64
		switch st.Mode {
		case "prefix":
			lo = idxs[0]
			hi, _ = pick(st.A)
		case "suffix":
			lo, _ = pick(st.A)
			hi = idxs[len(idxs)-1]
		case "middle":
			a, _ := pick(st.A)
			b, _ := pick(st.B)
			if a > b {
				a, b = b, a
			}
			lo, hi = a, b
		case "all":
			lo, hi = idxs[0], idxs[len(idxs)-1]
		case "empty":
			a, _ := pick(st.A)
			lo, hi = a+1, a
		case "beyond":
			lo, hi = 0, 0
			if len(idxs) > 0 {
				lo, hi = idxs[len(idxs)-1]+1, idxs[len(idxs)-1]+10
				if hi < lo {
					return nil
				}
			}
		}
		if err := r.s.DeleteRange(lo, hi); err != nil {
			return err
		}
		n := 0
		for _, i := range idxs {
			if i >= lo && i <= hi {
				delete(m.logs, i)
				r.deleted = append(r.deleted, i)
				n++
			}
		}
		if len(r.deleted) > 40 {
			r.deleted = r.deleted[len(r.deleted)-40:]
		}
		r.res.Add("delranges", 1)
		if n > 0 {
			r.res.Add("delranges_nonempty", 1)
		}
		if n > 1000 {
			r.res.Add("delranges_over_1000_entries", 1)
		}
	case "get":
		var i uint64
		switch st.Mode {
		case "existing":
			var ok bool
			if i, ok = pick(st.A); !ok {
				return nil
			}
			if c, d := r.checkGet(m, i); c != "" {
				r.violate(c, c+":get", "%s", d)
			}
		default:
			i = uint64(st.A) + 100000
			if st.Mode == "deleted" && len(r.deleted) > 0 {
				i = r.deleted[st.A%len(r.deleted)]
			}
			if _, ok := m.logs[i]; ok {
				return nil
			}
			var l raft.Log
			if err := r.s.GetLog(i, &l); err != raft.ErrLogNotFound {
				r.violate("missing-entry-error", "missing-entry-error:get", "GetLog(%d) of a missing entry returned %v, want raft.ErrLogNotFound", i, err)
			}
		}
		r.res.Add("gets", 1)
	case "firstlast":
		if c, d := r.verifyAgainst(m); c != "" {
			r.violate(c, c+":firstlast", "%s", d)
		}
	case "bulk":
		lo, ok := pick(st.A)
		if !ok {
			return nil
		}
		hi := lo + uint64(st.N)
		if hi < lo {
			hi = ^uint64(0)
		}
		// bulk iteration is a raw key range (used on the applied-log copy, which holds no stable keys);
		// ranges that straddle the stable store's key prefix are outside its contract
		const stablePrefix = 0x737461626c657374
		if lo <= stablePrefix+1 && hi >= stablePrefix-1 {
			return nil
		}
		it := r.s.GetBulkIterator(lo, hi)
		var got []uint64
		for ok := it.First(); ok; ok = it.Next() {
			if len(it.Key()) != 8 {
				r.violate("bulk-foreign-key", "bulk-foreign-key", "bulk iteration over [%d,%d) yielded key %q which is no log entry", lo, hi, it.Key())
				break
			}
			got = append(got, binary.BigEndian.Uint64(it.Key()))
		}
		it.Release()
		var want []uint64
		for _, i := range idxs {
			if i >= lo && i < hi {
				want = append(want, i)
			}
		}
		if fmt.Sprint(got) != fmt.Sprint(want) {
			r.violate("bulk-range", "bulk-range", "bulk iteration over [%d,%d) yielded %v, stored: %v", lo, hi, got, want)
		}
		r.res.Add("bulks", 1)
	case "set":
		k := c09Keys[st.A%len(c09Keys)]
		if err := r.s.Set([]byte(k), []byte(st.Val)); err != nil {
			return err
		}
		m.stable[k] = []byte(st.Val)
		r.res.Add("stable_sets", 1)
	case "setu":
		k := c09Keys[st.A%len(c09Keys)]
		v := uint64(int64(st.B))
		if err := r.s.SetUint64([]byte(k), v); err != nil {
			return err
		}
		b := make([]byte, 8)
		binary.BigEndian.PutUint64(b, v)
		m.stable[k] = b
		r.res.Add("stable_sets", 1)
	case "getk":
		k := c09Keys[st.A%len(c09Keys)]
		got, err := r.s.Get([]byte(k))
		want, has := m.stable[k]
		if err != nil || (has && !bytes.Equal(got, want)) || (!has && len(got) != 0) {
			r.violate("stable-value", "stable-value:get", "Get(%q) = %q, %v; last value written %q (written=%v)", k, got, err, want, has)
		}
	case "getu":
		k := c09Keys[st.A%len(c09Keys)]
		want, has := m.stable[k]
		if has && len(want) != 8 {
			return nil
		}
		got, err := r.s.GetUint64([]byte(k))
		var w uint64
		if has {
			w = binary.BigEndian.Uint64(want)
		}
		if err != nil || got != w {
			r.violate("stable-uint64", "stable-uint64:get", "GetUint64(%q) = %d, %v; want %d", k, got, err, w)
		}
	case "reopen":
		r.closeStore()
		if err := r.open(st.Flip); err != nil {
			return fmt.Errorf("reopen: %v", err)
		}
		r.res.Add("reopens", 1)
	}
	return nil
}

func TestVerifWorker(t *testing.T) {
	if os.Getenv("VERIF_MODE") == "" {
		t.Skip("simulation worker; run through /verif/bin/check")
	}
	if code := core.WorkerMain(c09Engine{}); code != 0 {
		os.Exit(code)
	}
}
