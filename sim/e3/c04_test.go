//go:debug asynctimerchan=0
package api

// Engine E3/C04: the real api.getMessages on the real OutputStream (compiled
// against the scheduler-owned sync drop-in) inside a synctest bubble. A
// simulated client reads its stream over successive connections, is
// disconnected between and inside batches, and resumes with the id of the last
// message it received on a store that holds the whole history or on a replica
// store that holds only a prefix and catches up at scheduler-chosen points.

import (
	"context"
	"encoding/json"
	"fmt"
	"os"
	"strings"
	"testing"
	"testing/synctest"
	"time"

	"github.com/robustirc/robustirc/internal/outputstream"
	"github.com/robustirc/robustirc/internal/robust"
	"github.com/robustirc/robustirc/internal/verifsim/core"
	"github.com/robustirc/robustirc/internal/verifsim/simsync"
)

type c04Step struct {
	K string `json:"k"`
	// batch: one output batch of the history (ids are assigned in order)
	Mine []bool `json:"mine,omitempty"`
	// connect: store 0 = up-to-date node, 1 = lagging replica
	Store int `json:"store,omitempty"`
	N     int `json:"n,omitempty"` // run: scheduler steps; apply: batches; cut: messages until the disconnect
}

type c04Scenario struct {
	Engine string    `json:"engine"`
	Steps  []c04Step `json:"steps"`
}

type c04Engine struct{}

const c04Session = 4242

func (c04Engine) Generate(seed uint64, prop, tier string) (json.RawMessage, error) {
	g := core.NewSource(seed).Stream("gen")
	sc := c04Scenario{Engine: "e3/c04"}
	nb := g.Range(1, 12)
	backlog := g.Chance(1, 60)
	if backlog {
		// a long backlog: more batches than the stream's read cache holds, and other readers (another
		// session's connection, a status page) have looked all of them up before this client reads them
		nb = g.Range(1002, 1040)
	}
	for i := 0; i < nb; i++ {
		n := g.Range(1, 5)
		if backlog {
			n = g.Pick2(1, 1, 2)
		}
		mine := make([]bool, n)
		for k := range mine {
			mine[k] = !g.Chance(1, 4)
		}
		sc.Steps = append(sc.Steps, c04Step{K: "batch", Mine: mine})
	}
	// the replica starts with a prefix
	sc.Steps = append(sc.Steps, c04Step{K: "apply", N: g.Intn(nb + 1)})
	if backlog {
		sc.Steps = append(sc.Steps, c04Step{K: "apply", N: nb}, c04Step{K: "warm", N: g.Range(1001, nb)})
	}
	conns := g.Range(1, 6)
	for c := 0; c < conns; c++ {
		sc.Steps = append(sc.Steps, c04Step{K: "connect", Store: g.Pick2(0, 1, 1)})
		for i := 0; i < g.Range(1, 8); i++ {
			switch g.Intn(10) {
			case 0, 1, 2, 3:
				sc.Steps = append(sc.Steps, c04Step{K: "run", N: g.Range(1, 6)})
			case 4, 5:
				sc.Steps = append(sc.Steps, c04Step{K: "apply", N: g.Range(1, 3)})
			case 6:
				sc.Steps = append(sc.Steps, c04Step{K: "sleep"})
			default:
				sc.Steps = append(sc.Steps, c04Step{K: "recv", N: g.Range(1, 6)})
			}
		}
		sc.Steps = append(sc.Steps, c04Step{K: "cut", N: g.Range(0, 4)})
	}
	return json.Marshal(sc)
}

type c04Msg struct {
	id, reply uint64
}

type c04Run struct {
	res      *core.Result
	tr       *core.Trace
	stores   [2]*outputstream.OutputStream
	apis     [2]*HTTP
	history  [][]outputstream.Message
	applied  int // batches on the replica
	expected []c04Msg
	received []c04Msg
	lastSeen robust.Id
	// current connection
	sched   *simsync.Sched
	reader  *simsync.Task
	ch      chan []*robust.Message
	cancel  context.CancelFunc
	store   int
	pending []*robust.Message // delivered by getMessages, not yet read by the client
	cutIn   int               // disconnect after this many further client-visible messages (-1 = none)
	step    int
}

func (r *c04Run) violate(class, sig, f string, a ...interface{}) {
	r.res.Violate("C04", class, sig, fmt.Sprintf("step %d: ", r.step)+fmt.Sprintf(f, a...), r.step)
}

func (r *c04Run) applyReplica(n int) {
	for k := 0; k < n && r.applied < len(r.history); k++ {
		r.asDriver(func() {
			if err := r.stores[1].Add(r.history[r.applied]); err != nil {
				panic(err)
			}
		})
		r.applied++
		r.res.Add("replica_applies", 1)
		if r.reader != nil && !r.reader.Done() && r.store == 1 {
			r.res.Add("applies_during_connection", 1)
		}
	}
	if r.sched != nil {
		// an Add wakes waiting readers
	}
}

// asDriver performs an operation of another party (the applier's Add, the handler's InterruptGetNext)
// while a connection exists: as a task of its own that runs to completion; whenever it has to wait for a
// lock the reader holds, the reader is scheduled (the only legal continuation).
func (r *c04Run) asDriver(f func()) {
	if r.sched == nil {
		f()
		return
	}
	t := r.sched.Go("party", f)
	for guard := 0; guard < 100000 && !t.Done(); guard++ {
		switch {
		case t.Ready():
			r.sched.Step(t)
		case r.reader != nil && r.reader.Ready():
			r.sched.Step(r.reader)
		default:
			r.violate("deadlock", "deadlock", "operation of another party cannot complete: it waits at %s while the reader is not runnable", t.Point)
			return
		}
	}
	if t.Panic != nil {
		panic(fmt.Sprintf("party task panicked: %v\n%s", t.Panic, t.PanicStack))
	}
}

func (r *c04Run) disconnect() {
	if r.reader == nil {
		return
	}
	r.cancel()
	// the handler wakes the helper goroutine from GetNext
	r.asDriver(func() { r.stores[r.store].InterruptGetNext() })
	for guard := 0; guard < 10000 && !r.reader.Done(); guard++ {
		if r.reader.Ready() {
			r.sched.Step(r.reader)
			continue
		}
		// blocked outside the simulator's view: sleeping or sending; ctx is cancelled so a send returns
		r.sched.ResumeExternal(r.reader, func() { time.Sleep(300 * time.Millisecond) })
		if r.reader.Blocked() {
			// inside Cond.Wait: interrupt again (the handler does this exactly once; a reader that misses it stays until the next Add)
			r.asDriver(func() { r.stores[r.store].InterruptGetNext() })
		}
	}
	if r.reader.Panic != nil {
		r.violate("panic", "panic", "getMessages panicked: %v\n%s", r.reader.Panic, r.reader.PanicStack)
	}
	if !r.reader.Done() {
		var st []string
		for _, t := range r.sched.Tasks() {
			st = append(st, fmt.Sprintf("%s done=%v ready=%v blocked=%v point=%s", t.Name, t.Done(), t.Ready(), t.Blocked(), t.Point))
		}
		panic("harness: reader did not end after disconnect: " + strings.Join(st, "; "))
	}
	r.pending = nil
	r.reader = nil
	r.sched.Close()
	r.sched = nil
}

func (r *c04Run) connect(store int) {
	r.disconnect()
	r.store = store
	ls := r.lastSeen
	// probes (before the scheduler exists: primitives are in set-up mode)
	if store == 1 {
		r.res.Add("connections_to_replica", 1)
		if _, ok := r.stores[1].Get(robust.Id{Id: ls.Id}); !ok && ls.Id != 0 {
			r.res.Add("resume_on_replica_without_batch", 1)
			if ls.Reply > 0 && r.midBatch(ls) {
				r.res.Add("resume_midbatch_on_replica_without_batch", 1)
			}
		}
	}
	r.sched = simsync.NewSched()
	r.sched.Quiesce = synctest.Wait
	ctx, cancel := context.WithCancel(context.Background())
	r.cancel = cancel
	r.ch = make(chan []*robust.Message)
	api := r.apis[store]
	ch := r.ch
	r.reader = r.sched.Go("getMessages", func() { api.getMessages(ctx, ls, ch) })
	r.cutIn = -1
	r.res.Add("connections", 1)
	if r.midBatch(ls) {
		r.res.Add("resume_midbatch", 1)
	}
	r.tr.Log("connect store=%d lastseen=%d.%d", store, ls.Id, ls.Reply)
}

// midBatch: the client saw a message of a batch which has further messages for it.
func (r *c04Run) midBatch(ls robust.Id) bool {
	for _, b := range r.history {
		if b[0].Id.Id != ls.Id {
			continue
		}
		for _, m := range b {
			if m.Id.Reply > ls.Reply && m.InterestingFor[c04Session] {
				return true
			}
		}
	}
	return false
}

// pump moves what getMessages delivered to the client, message by message, honouring the cut.
func (r *c04Run) pump(max int) {
	for n := 0; n < max; n++ {
		if len(r.pending) == 0 {
			if r.reader == nil || r.reader.Done() {
				return
			}
			got := false
			r.sched.ResumeExternal(r.reader, func() {
				select {
				case msgs := <-r.ch:
					r.pending = msgs
					got = true
				default:
				}
			})
			if !got {
				return
			}
		}
		for len(r.pending) > 0 {
			m := r.pending[0]
			r.pending = r.pending[1:]
			// the handler's per-session filter
			if !m.InterestingFor[c04Session] {
				continue
			}
			got := c04Msg{m.Id.Id, m.Id.Reply}
			idx := len(r.received)
			if idx >= len(r.expected) || r.expected[idx] != got {
				want := "nothing more"
				if idx < len(r.expected) {
					want = fmt.Sprintf("%d.%d", r.expected[idx].id, r.expected[idx].reply)
				}
				dup := false
				for _, p := range r.received {
					if p == got {
						dup = true
					}
				}
				class, sig := "gap", "message-skipped"
				if dup {
					class, sig = "duplicate", "message-delivered-twice"
				}
				r.violate(class, sig, "client received %d.%d, next message addressed to it is %s (received so far: %d messages; resumed with lastseen on store %d)", got.id, got.reply, want, len(r.received), r.store)
				return
			}
			r.received = append(r.received, got)
			r.lastSeen = robust.Id{Id: m.Id.Id, Reply: m.Id.Reply}
			r.res.Add("messages_received", 1)
			if r.cutIn > 0 {
				r.cutIn--
			}
			if r.cutIn == 0 {
				if len(r.pending) > 0 {
					r.res.Add("cuts_inside_batch", 1)
				}
				r.tr.Log("cut at %d.%d", got.id, got.reply)
				r.disconnect()
				return
			}
		}
	}
}

var c04T *testing.T

func (c04Engine) Execute(raw json.RawMessage, prop string) (*core.Result, error) {
	var sc c04Scenario
	if err := json.Unmarshal(raw, &sc); err != nil {
		return nil, err
	}
	res := &core.Result{}
	var execErr error
	func() {
		defer func() {
			if rec := recover(); rec != nil {
				// goroutines of the databases (and of abandoned tasks) may still be parked when the bubble ends
				if s := fmt.Sprint(rec); strings.Contains(s, "main bubble goroutine has exited but blocked goroutines remain") {
					return
				}
				execErr = fmt.Errorf("bubble: %v", rec)
			}
		}()
		synctest.Test(c04T, func(t *testing.T) {
			execErr = c04Execute(&sc, res)
		})
	}()
	return res, execErr
}

func c04Execute(sc *c04Scenario, res *core.Result) error {
	r := &c04Run{res: res, tr: &core.Trace{}, cutIn: -1}
	for k := range r.stores {
		o, err := outputstream.NewOutputStream("")
		if err != nil {
			return err
		}
		r.stores[k] = o
		r.apis[k] = &HTTP{outputUnlocked: o}
	}
	defer func() {
		r.disconnect()
		for _, o := range r.stores {
			o.Close()
		}
		time.Sleep(2 * time.Second)
	}()
	t0 := time.Now()
	// history
	id := uint64(100)
	for _, st := range sc.Steps {
		if st.K != "batch" || len(st.Mine) == 0 {
			continue
		}
		id += 10
		var b []outputstream.Message
		for k, mine := range st.Mine {
			rc := map[uint64]bool{777: true}
			if mine {
				rc[c04Session] = true
				r.expected = append(r.expected, c04Msg{id, uint64(k + 1)})
			}
			b = append(b, outputstream.Message{Id: robust.Id{Id: id, Reply: uint64(k + 1)}, Data: fmt.Sprintf("m%d.%d", id, k+1), InterestingFor: rc})
		}
		r.history = append(r.history, b)
		if err := r.stores[0].Add(b); err != nil {
			return err
		}
	}
	// the client starts at its session id (older than every message)
	r.lastSeen = robust.Id{Id: 50}
	for si, st := range sc.Steps {
		if len(res.Violations) > 0 {
			break
		}
		r.step = si
		switch st.K {
		case "apply":
			r.applyReplica(st.N)
			if r.sched != nil {
				// Add woke the reader if it was waiting; nothing runs until it is scheduled
			}
			r.tr.Log("apply -> %d", r.applied)
		case "warm":
			// other readers walk the stream on both nodes (no connection of ours exists yet)
			if r.sched == nil {
				for k := range r.stores {
					for i := 0; i < st.N && i < len(r.history); i++ {
						if k == 1 && i >= r.applied {
							break
						}
						r.stores[k].Get(r.history[i][0].Id)
						res.Add("lookups_by_other_readers", 1)
					}
				}
			}
		case "connect":
			r.connect(st.Store)
		case "run":
			for k := 0; k < st.N && r.reader != nil && r.reader.Ready(); k++ {
				r.sched.Step(r.reader)
				res.Add("sched_steps", 1)
				if r.reader.Panic != nil {
					r.violate("panic", "panic", "getMessages panicked: %v\n%s", r.reader.Panic, r.reader.PanicStack)
				}
			}
		case "sleep":
			if r.reader != nil && !r.reader.Done() && !r.reader.Ready() && !r.reader.Blocked() {
				r.sched.ResumeExternal(r.reader, func() { time.Sleep(250 * time.Millisecond) })
				res.Add("backoff_sleeps", 1)
			}
		case "recv":
			r.pump(st.N)
		case "cut":
			if r.reader != nil {
				if st.N == 0 {
					r.disconnect()
				} else {
					// the connection breaks after the client has read N more messages (possibly inside a batch)
					r.cutIn = st.N
					for guard := 0; guard < 300 && r.reader != nil && len(res.Violations) == 0; guard++ {
						if r.reader.Ready() {
							r.sched.Step(r.reader)
							continue
						}
						before := len(r.received)
						r.pump(100)
						if r.reader == nil || r.reader.Done() {
							break
						}
						if len(r.received) == before && !r.reader.Ready() {
							if r.reader.Blocked() {
								break // waiting for a batch that is not there yet
							}
							r.sched.ResumeExternal(r.reader, func() { time.Sleep(250 * time.Millisecond) })
						}
					}
				}
			}
		}
	}
	// epilogue: faults stop. The replica catches up, the client resumes there and must get everything
	// that is left, exactly once, within a bounded number of steps.
	if len(res.Violations) == 0 {
		r.step = len(sc.Steps)
		r.applyReplica(len(r.history))
		r.connect(1)
		for guard := 0; guard < 4000+20*len(r.expected) && len(res.Violations) == 0 && r.reader != nil && len(r.received) < len(r.expected); guard++ {
			switch {
			case r.reader.Ready():
				r.sched.Step(r.reader)
			default:
				before := len(r.received)
				r.pump(1000)
				if r.reader != nil && len(r.received) == before && !r.reader.Ready() && !r.reader.Done() {
					if r.reader.Blocked() {
						// waiting for a message that will never come although messages are missing
						guard = 1 << 30
						break
					}
					r.sched.ResumeExternal(r.reader, func() { time.Sleep(250 * time.Millisecond) })
				}
			}
			if r.reader != nil && r.reader.Panic != nil {
				r.violate("panic", "panic", "getMessages panicked: %v\n%s", r.reader.Panic, r.reader.PanicStack)
			}
		}
		if len(res.Violations) == 0 && len(r.received) < len(r.expected) {
			nx := r.expected[len(r.received)]
			r.violate("lost", "message-never-delivered", "after the replica caught up and the client resumed with lastseen %d.%d it never received %d.%d (%d of %d messages received)", r.lastSeen.Id, r.lastSeen.Reply, nx.id, nx.reply, len(r.received), len(r.expected))
		}
	}
	res.SimMillis = time.Since(t0).Milliseconds()
	res.Steps = len(sc.Steps)
	res.Fingerprint = r.tr.Digest()
	res.Nontrivial = res.Stats["resume_midbatch_on_replica_without_batch"] >= 1 || (res.Stats["resume_midbatch"] >= 1 && res.Stats["applies_during_connection"] >= 1)
	return nil
}

func TestVerifWorker(t *testing.T) {
	if os.Getenv("VERIF_MODE") == "" {
		t.Skip("simulation worker; run through /verif/bin/check")
	}
	c04T = t
	if code := core.WorkerMain(c04Engine{}); code != 0 {
		os.Exit(code)
	}
}
