package outputstream

// Engine E3/C08: the real OutputStream (compiled against the scheduler-owned
// sync drop-in, see /verif/sim/simsync) driven by small concurrent programs
// whose interleaving at every Lock/RLock/Cond.Wait is decided by the scenario.
// Oracle: a sorted-map model with a version timeline.

import (
	"context"
	"encoding/json"
	"fmt"
	"os"
	"regexp"
	"sort"
	"strings"
	"testing"

	"github.com/robustirc/robustirc/internal/robust"
	"github.com/robustirc/robustirc/internal/verifsim/core"
	"github.com/robustirc/robustirc/internal/verifsim/simsync"
)

type c08Step struct {
	K string `json:"k"` // "op" | "pick"
	// op fields
	T    int      `json:"t,omitempty"` // task index; -1 = set-up (sequential, before scheduling)
	Op   string   `json:"op,omitempty"`
	ID   uint64   `json:"id,omitempty"`
	N    int      `json:"n,omitempty"`
	Rcpt []uint64 `json:"rcpt,omitempty"`
	// pick fields
	V int `json:"v,omitempty"`
}

type c08Scenario struct {
	Engine string    `json:"engine"`
	Tasks  int       `json:"tasks"`
	Steps  []c08Step `json:"steps"`
}

type c08Engine struct{}

func (c08Engine) Generate(seed uint64, prop, tier string) (json.RawMessage, error) {
	src := core.NewSource(seed)
	g := src.Stream("gen")
	sc := c08Scenario{Engine: "e3/c08"}
	kind := g.Intn(10)
	nextID := uint64(0)
	newID := func() uint64 {
		nextID += uint64(g.Range(1, 4))
		return nextID
	}
	var added []uint64
	mkAdd := func(t int) c08Step {
		id := newID()
		added = append(added, id)
		n := g.Range(1, 3)
		var rc []uint64
		for i := 0; i < g.Intn(3); i++ {
			rc = append(rc, uint64(g.Range(1, 4)))
		}
		return c08Step{K: "op", T: t, Op: "add", ID: id, N: n, Rcpt: rc}
	}
	pickX := func() uint64 {
		switch g.Intn(6) {
		case 0:
			return 0
		case 1, 2:
			if len(added) > 0 {
				return added[g.Intn(len(added))]
			}
			return 0
		case 3:
			if len(added) > 0 {
				return added[len(added)-1]
			}
			return 0
		case 4:
			if len(added) > 0 {
				return added[g.Intn(len(added))] + 1 // may or may not exist
			}
			return 1
		default:
			return nextID + uint64(g.Range(1, 5)) // never existed (yet)
		}
	}
	if g.Chance(1, 80) {
		// cache program: more than 1000 distinct batches are looked up (the read cache starts evicting),
		// then lookups and successor queries are repeated against the model
		sc.Tasks = 1
		n := g.Range(1050, 1400)
		for i := 0; i < n; i++ {
			sc.Steps = append(sc.Steps, mkAdd(0))
		}
		for _, id := range added {
			sc.Steps = append(sc.Steps, c08Step{K: "op", T: 0, Op: "get", ID: id})
		}
		for i := 0; i < 400; i++ {
			id := added[g.Intn(len(added))]
			switch g.Intn(4) {
			case 0:
				sc.Steps = append(sc.Steps, c08Step{K: "op", T: 0, Op: "getnext-if-succ", ID: id})
			case 1:
				sc.Steps = append(sc.Steps, c08Step{K: "op", T: 0, Op: "del", ID: id})
			default:
				sc.Steps = append(sc.Steps, c08Step{K: "op", T: 0, Op: "get", ID: id})
			}
		}
		return json.Marshal(sc)
	}
	if kind == 0 {
		// long sequential program against the model ("between reads": deletes in any order)
		sc.Tasks = 1
		n := g.Range(20, 120)
		if g.Chance(1, 40) {
			n = g.Range(2600, 4000) // enough distinct lookups (>1000) to exercise the batch cache eviction path
		}
		present := map[uint64]bool{}
		for i := 0; i < n; i++ {
			switch r := g.Intn(10); {
			case r < 4 || len(added) == 0:
				st := mkAdd(0)
				present[st.ID] = true
				sc.Steps = append(sc.Steps, st)
			case r < 6:
				id := added[g.Intn(len(added))]
				// never delete the tail's predecessor chain completely: any order is allowed
				delete(present, id)
				sc.Steps = append(sc.Steps, c08Step{K: "op", T: 0, Op: "del", ID: id})
			case r < 7:
				sc.Steps = append(sc.Steps, c08Step{K: "op", T: 0, Op: "del", ID: nextID + 100})
			case r < 9:
				// GetNext only where a successor exists (a lone task would block forever otherwise)
				x := pickX()
				sc.Steps = append(sc.Steps, c08Step{K: "op", T: 0, Op: "getnext-if-succ", ID: x})
			default:
				id := uint64(0)
				if len(added) > 0 {
					id = added[g.Intn(len(added))]
				}
				sc.Steps = append(sc.Steps, c08Step{K: "op", T: 0, Op: "get", ID: id})
			}
		}
	} else {
		// concurrent program: one writer (adds, oldest-first deletes: the applier/compactor),
		// optionally a separate compactor, 1-3 readers, optionally a canceller.
		for i := 0; i < g.Intn(4); i++ {
			sc.Steps = append(sc.Steps, mkAdd(-1))
		}
		if g.Chance(1, 3) && len(added) > 0 {
			sc.Steps = append(sc.Steps, c08Step{K: "op", T: -1, Op: "del-oldest"})
		}
		readers := g.Range(1, 3)
		t := 0
		readerIdx := []int{}
		for r := 0; r < readers; r++ {
			nops := g.Range(1, 3)
			for i := 0; i < nops; i++ {
				op := "getnext"
				if g.Chance(1, 5) {
					op = "get"
				}
				sc.Steps = append(sc.Steps, c08Step{K: "op", T: t, Op: op, ID: pickX()})
			}
			readerIdx = append(readerIdx, t)
			t++
		}
		writer := t
		t++
		compactor := -1
		if g.Chance(1, 3) {
			compactor = t
			t++
		}
		nw := g.Range(1, 6)
		for i := 0; i < nw; i++ {
			switch r := g.Intn(10); {
			case r < 5:
				sc.Steps = append(sc.Steps, mkAdd(writer))
			case r < 8:
				who := writer
				if compactor >= 0 {
					who = compactor
				}
				sc.Steps = append(sc.Steps, c08Step{K: "op", T: who, Op: "del-oldest"})
			case r < 9:
				sc.Steps = append(sc.Steps, c08Step{K: "op", T: writer, Op: "del", ID: nextID + 50})
			default:
				sc.Steps = append(sc.Steps, c08Step{K: "op", T: writer, Op: "get", ID: pickX()})
			}
		}
		if g.Chance(1, 3) {
			sc.Steps = append(sc.Steps, c08Step{K: "op", T: t, Op: "cancel", N: readerIdx[g.Intn(len(readerIdx))]})
			t++
		}
		sc.Tasks = t
		// schedule: uniform, or sticky (PCT-like: long runs of one task with few switch points)
		np := g.Range(20, 80)
		sticky := g.Chance(1, 2)
		last := 0
		for i := 0; i < np; i++ {
			v := g.Intn(64)
			if sticky && !g.Chance(1, 5) {
				v = last
			}
			last = v
			sc.Steps = append(sc.Steps, c08Step{K: "pick", V: v})
		}
	}
	return json.Marshal(sc)
}

// --- model ---

type c08Model struct {
	present  map[uint64][]Message
	versions [][]uint64 // sorted present ids after each mutation
}

func (m *c08Model) snap() {
	ids := make([]uint64, 0, len(m.present))
	for id := range m.present {
		ids = append(ids, id)
	}
	sort.Slice(ids, func(i, j int) bool { return ids[i] < ids[j] })
	m.versions = append(m.versions, ids)
}

func succ(ids []uint64, x uint64) (uint64, bool) {
	i := sort.Search(len(ids), func(i int) bool { return ids[i] > x })
	if i < len(ids) {
		return ids[i], true
	}
	return 0, false
}

func sameBatch(a, b []Message) bool {
	if len(a) != len(b) {
		return false
	}
	for i := range a {
		if a[i].Id != b[i].Id || a[i].Data != b[i].Data || len(a[i].InterestingFor) != len(b[i].InterestingFor) {
			return false
		}
		for k, v := range a[i].InterestingFor {
			if b[i].InterestingFor[k] != v {
				return false
			}
		}
	}
	return true
}

var frameRe = regexp.MustCompile(`outputstream\.\(\*OutputStream\)\.(\w+)`)

func panicSig(t *simsync.Task) string {
	fn := "?"
	if m := frameRe.FindStringSubmatch(t.PanicStack); m != nil {
		fn = m[1]
	}
	msg := fmt.Sprint(t.Panic)
	kind := "panic"
	switch {
	case strings.Contains(msg, "nil pointer"):
		kind = "nil-deref"
	case strings.Contains(msg, "index out of range") || strings.Contains(msg, "slice bounds"):
		kind = "out-of-range"
	}
	return fn + ":" + kind
}

func (c08Engine) Execute(raw json.RawMessage, prop string) (*core.Result, error) {
	var sc c08Scenario
	if err := json.Unmarshal(raw, &sc); err != nil {
		return nil, err
	}
	res := &core.Result{}
	tr := &core.Trace{}
	o, err := NewOutputStream("")
	if err != nil {
		return nil, err
	}
	defer o.Close()

	model := &c08Model{present: map[uint64][]Message{0: {{Id: robust.Id{Id: 0}, InterestingFor: map[uint64]bool{}}}}}
	model.snap()
	lastAdded := uint64(0)

	type taskInfo struct {
		ops       []c08Step
		ctx       context.Context
		cancel    context.CancelFunc
		cancelled bool // ctx cancelled and readers interrupted afterwards
		inGetNext bool
		gnX       uint64
		gnV0      int
		waited    bool
		// model mutation of the operation in flight: takes effect when the task releases its write lock
		commit func()
	}
	ntasks := sc.Tasks
	for _, st := range sc.Steps {
		if st.K == "op" && st.T+1 > ntasks {
			ntasks = st.T + 1
		}
	}
	infos := make([]*taskInfo, ntasks)
	for i := range infos {
		ctx, cancel := context.WithCancel(context.Background())
		infos[i] = &taskInfo{ctx: ctx, cancel: cancel}
	}
	var setup []c08Step
	var picks []int
	for _, st := range sc.Steps {
		switch st.K {
		case "op":
			if st.T < 0 {
				setup = append(setup, st)
			} else {
				infos[st.T].ops = append(infos[st.T].ops, st)
			}
		case "pick":
			picks = append(picks, st.V)
		}
	}

	violate := func(class, sig, detail string) {
		res.Violate("C08", class, sig, detail, int(res.Stats["sched_steps"]))
	}

	checkGetNext := func(ti *taskInfo, got []Message) {
		v1 := len(model.versions) - 1
		if len(got) == 0 {
			if !ti.cancelled && ti.ctx.Err() == nil {
				violate("getnext-empty-without-cancel", "getnext-empty-without-cancel", fmt.Sprintf("GetNext(%d) returned empty although its context was not cancelled", ti.gnX))
			}
			res.Add("getnext_cancelled", 1)
			return
		}
		id := got[0].Id.Id
		ok := false
		for v := ti.gnV0; v <= v1; v++ {
			if s, has := succ(model.versions[v], ti.gnX); has && s == id {
				ok = true
				break
			}
		}
		if !ok {
			violate("getnext-wrong-batch", "getnext-wrong-batch", fmt.Sprintf("GetNext(%d) returned batch %d which was at no instant of the call (versions %d..%d: %v .. %v) the smallest present id > x", ti.gnX, id, ti.gnV0, v1, model.versions[ti.gnV0], model.versions[v1]))
			return
		}
		// contents: the batch as added (it may have been deleted meanwhile, compare with the last known contents)
		if want, has := allAdded(model, id); has && !sameBatch(got, want) {
			violate("getnext-wrong-contents", "getnext-wrong-contents", fmt.Sprintf("GetNext(%d) returned batch %d with contents %v, added %v", ti.gnX, id, got, want))
		}
		res.Add("getnext_returned", 1)
		if ti.waited {
			res.Add("getnext_returned_after_wait", 1)
		}
	}

	doOp := func(ti *taskInfo, st c08Step) {
		switch st.Op {
		case "add":
			id := st.ID
			if id <= lastAdded {
				id = lastAdded + 1
			}
			n := st.N
			if n < 1 {
				n = 1
			}
			msgs := make([]Message, n)
			for k := range msgs {
				rc := map[uint64]bool{}
				for _, r := range st.Rcpt {
					rc[r] = true
				}
				msgs[k] = Message{Id: robust.Id{Id: id, Reply: uint64(k + 1)}, Data: fmt.Sprintf("m%d.%d", id, k+1), InterestingFor: rc}
			}
			lastAdded = id
			ti.commit = func() {
				model.present[id] = msgs
				addedEver[modelKey{model, id}] = msgs
				model.snap()
			}
			err := o.Add(msgs)
			if ti.commit != nil { // set-up phase (no scheduler, no yield)
				ti.commit()
				ti.commit = nil
			}
			if err != nil {
				violate("add-error", "add-error", err.Error())
			}
			tr.Log("add %d", id)
			res.Add("adds", 1)
		case "del", "del-oldest":
			id := st.ID
			if st.Op == "del-oldest" {
				ids := model.versions[len(model.versions)-1]
				if len(ids) < 2 {
					return // only the sentinel is left
				}
				id = ids[1]
			}
			if id == 0 {
				return
			}
			ti.commit = func() {
				if _, ok := model.present[id]; ok {
					delete(model.present, id)
					model.snap()
					res.Add("deletes_existing", 1)
					if id == lastAdded {
						res.Add("deletes_tail", 1)
					}
				} else {
					res.Add("deletes_nonexisting", 1)
				}
			}
			err := o.Delete(robust.Id{Id: id})
			if ti.commit != nil {
				ti.commit()
				ti.commit = nil
			}
			if err != nil {
				violate("delete-error", "delete-error", err.Error())
			}
			tr.Log("del %d", id)
		case "get":
			v0 := len(model.versions) - 1
			got, ok := o.Get(robust.Id{Id: st.ID})
			// the answer is right if it was right at some instant of the call
			fits := false
			for v := v0; v < len(model.versions) && !fits; v++ {
				has := false
				for _, id := range model.versions[v] {
					if id == st.ID {
						has = true
					}
				}
				fits = has == ok
			}
			want, _ := allAdded(model, st.ID)
			if st.ID == 0 {
				want = model.present[0]
			}
			if !fits || (ok && want != nil && !sameBatch(got, want)) {
				violate("get-mismatch", "get-mismatch", fmt.Sprintf("Get(%d) = %v,%v; model (versions %d..%d) has %v", st.ID, got, ok, v0, len(model.versions)-1, want))
			}
			tr.Log("get %d %v", st.ID, ok)
			res.Add("gets", 1)
		case "getnext", "getnext-if-succ":
			if st.Op == "getnext-if-succ" {
				if _, has := succ(model.versions[len(model.versions)-1], st.ID); !has {
					return
				}
			}
			ti.inGetNext, ti.gnX, ti.gnV0, ti.waited = true, st.ID, len(model.versions)-1, false
			got := o.GetNext(ti.ctx, robust.Id{Id: st.ID})
			ti.inGetNext = false
			checkGetNext(ti, got)
			gid := uint64(0)
			if len(got) > 0 {
				gid = got[0].Id.Id
			}
			tr.Log("getnext %d -> %d", st.ID, gid)
		case "cancel":
			if st.N >= 0 && st.N < len(infos) {
				infos[st.N].cancel()
				o.InterruptGetNext()
				infos[st.N].cancelled = true
				tr.Log("cancel %d", st.N)
				res.Add("cancels", 1)
			}
		}
	}

	// set-up phase (no scheduler: primitives in pass-through mode)
	for _, st := range setup {
		doOp(&taskInfo{ctx: context.Background()}, st)
	}

	s := simsync.NewSched()
	defer s.Close()
	byTask := map[*simsync.Task]*taskInfo{}
	simsync.OnWriteRelease = func(t *simsync.Task) {
		if ti := byTask[t]; ti != nil && ti.commit != nil {
			ti.commit()
			ti.commit = nil
		}
	}
	defer func() { simsync.OnWriteRelease = nil }()
	tasks := make([]*simsync.Task, len(infos))
	for i, ti := range infos {
		ti := ti
		tasks[i] = s.Go(fmt.Sprintf("t%d", i), func() {
			for _, st := range ti.ops {
				doOp(ti, st)
			}
		})
		byTask[tasks[i]] = ti
	}

	nontrivial := false
	pi := 0
	const maxSteps = 200000
	for step := 0; step < maxSteps; step++ {
		run := s.Runnable()
		if len(run) == 0 {
			break
		}
		v := 0
		if pi < len(picks) {
			v = picks[pi]
			pi++
		}
		t := run[v%len(run)]
		if len(run) > 1 {
			tr.Log("pick %s@%s", t.Name, t.Point)
		}
		s.Step(t)
		res.Add("sched_steps", 1)
		// bookkeeping: who is waiting inside GetNext
		for i, tk := range tasks {
			if infos[i].inGetNext && tk.Blocked() && tk.Point == "Cond.Wait" {
				if !infos[i].waited {
					res.Add("getnext_blocked", 1)
				}
				infos[i].waited = true
			}
		}
		if t.Panic != nil {
			sig := panicSig(t)
			violate("panic", "panic:"+sig, fmt.Sprintf("task %s panicked: %v\n%s", t.Name, t.Panic, firstLines(t.PanicStack, 14)))
			break
		}
	}
	res.Steps = int(res.Stats["sched_steps"])

	// end of run: nothing runnable. Who is still blocked, and may it be?
	if len(res.Violations) == 0 {
		cur := model.versions[len(model.versions)-1]
		for i, tk := range tasks {
			if tk.Done() {
				continue
			}
			ti := infos[i]
			if !tk.Blocked() {
				continue
			}
			if tk.Point != "Cond.Wait" {
				violate("deadlock", "deadlock:"+tk.Point, fmt.Sprintf("task %s blocked at %s with no runnable task", tk.Name, tk.Point))
				continue
			}
			if ti.inGetNext {
				if sid, has := succ(cur, ti.gnX); has {
					violate("getnext-stuck", "getnext-stuck-with-successor", fmt.Sprintf("GetNext(%d) still blocked at the end although batch %d exists (present: %v)", ti.gnX, sid, cur))
				} else if ti.cancelled {
					violate("getnext-stuck", "getnext-stuck-after-cancel", fmt.Sprintf("GetNext(%d) still blocked although its context was cancelled and readers were interrupted afterwards", ti.gnX))
				} else {
					res.Add("getnext_legitimately_blocked_at_end", 1)
				}
			}
		}
	}
	if res.Stats["getnext_returned_after_wait"] > 0 || (res.Stats["getnext_blocked"] > 0 && res.Stats["deletes_existing"] > 0) {
		nontrivial = true
	}
	if sc.Tasks == 1 && res.Stats["getnext_returned"] > 2 && res.Stats["deletes_existing"] > 2 {
		nontrivial = true
	}

	// clean-up: release blocked readers so that the goroutines end.
	if len(res.Violations) == 0 {
		for _, ti := range infos {
			ti.cancel()
		}
		cl := s.Go("cleanup", func() { o.InterruptGetNext() })
		for guard := 0; guard < 10000; guard++ {
			run := s.Runnable()
			if len(run) == 0 {
				break
			}
			// run the clean-up task first, then the rest
			t := run[0]
			for _, r := range run {
				if r == cl {
					t = r
				}
			}
			s.Step(t)
			if t.Panic != nil {
				violate("panic", "panic:"+panicSig(t), fmt.Sprintf("task %s panicked during clean-up (cancel+interrupt): %v\n%s", t.Name, t.Panic, firstLines(t.PanicStack, 14)))
				break
			}
		}
	}
	for k := range addedEver {
		if k.m == model {
			delete(addedEver, k)
		}
	}
	res.Nontrivial = nontrivial
	res.Fingerprint = tr.Digest()
	return res, nil
}

type modelKey struct {
	m  *c08Model
	id uint64
}

var addedEver = map[modelKey][]Message{}

func allAdded(m *c08Model, id uint64) ([]Message, bool) {
	v, ok := addedEver[modelKey{m, id}]
	return v, ok
}

func firstLines(s string, n int) string {
	lines := strings.Split(s, "\n")
	if len(lines) > n {
		lines = lines[:n]
	}
	return strings.Join(lines, "\n")
}

func TestVerifWorker(t *testing.T) {
	if os.Getenv("VERIF_MODE") == "" {
		t.Skip("simulation worker; run through /verif/bin/check")
	}
	if code := core.WorkerMain(c08Engine{}); code != 0 {
		os.Exit(code)
	}
}
