// Package core is the part of the simulation framework shared by all engines:
// seeded choice streams, the scenario/result wire format and the worker
// protocol spoken with /verif/bin/check.
//
// It is mapped into /repo's package tree at build time with `go test -overlay`
// (as github.com/robustirc/robustirc/internal/verifsim/core); nothing of it
// exists in /repo itself.
package core

import (
	"encoding/json"
	"fmt"
	"hash/fnv"
	"os"
	"runtime/debug"
	"sort"
	"strconv"
	"strings"
	"time"
)

// ---------------------------------------------------------------------------
// Choice source: every decision is hash(seed, stream, counter) so that the
// order in which different parts of the simulator ask never changes anybody's
// answer. Nothing here reads a clock or a global RNG.

func splitmix64(x uint64) uint64 {
	x += 0x9e3779b97f4a7c15
	x = (x ^ (x >> 30)) * 0xbf58476d1ce4e5b9
	x = (x ^ (x >> 27)) * 0x94d049bb133111eb
	return x ^ (x >> 31)
}

// Mix derives a sub-seed from a seed and an index (used by the runner too; the
// python side implements the same function).
func Mix(seed, i uint64) uint64 {
	return splitmix64(splitmix64(seed) ^ (i+1)*0xd6e8feb86659fd93)
}

type Source struct {
	seed    uint64
	streams map[string]*Stream
}

func NewSource(seed uint64) *Source {
	return &Source{seed: seed, streams: make(map[string]*Stream)}
}

func (s *Source) Seed() uint64 { return s.seed }

type Stream struct {
	base uint64
	ctr  uint64
}

func (s *Source) Stream(name string) *Stream {
	if st, ok := s.streams[name]; ok {
		return st
	}
	h := fnv.New64a()
	h.Write([]byte(name))
	st := &Stream{base: splitmix64(s.seed ^ h.Sum64())}
	s.streams[name] = st
	return st
}

func (st *Stream) Uint64() uint64 {
	st.ctr++
	return splitmix64(st.base + st.ctr*0x9e3779b97f4a7c15)
}

// Intn returns a value in [0,n). n<=0 yields 0.
func (st *Stream) Intn(n int) int {
	if n <= 1 {
		if n == 1 {
			st.Uint64() // keep the counter moving so shrinking n does not shift later draws
		}
		return 0
	}
	return int(st.Uint64() % uint64(n))
}

// Range returns a value in [lo,hi].
func (st *Stream) Range(lo, hi int) int {
	if hi <= lo {
		return lo
	}
	return lo + st.Intn(hi-lo+1)
}

// Chance is true with probability num/den.
func (st *Stream) Chance(num, den int) bool {
	return st.Intn(den) < num
}

func (st *Stream) Pick(xs []string) string {
	if len(xs) == 0 {
		return ""
	}
	return xs[st.Intn(len(xs))]
}

// Pick2 picks one of the given ints.
func (st *Stream) Pick2(xs ...int) int {
	if len(xs) == 0 {
		return 0
	}
	return xs[st.Intn(len(xs))]
}

// Perm returns a permutation of 0..n-1.
func (st *Stream) Perm(n int) []int {
	p := make([]int, n)
	for i := range p {
		p[i] = i
	}
	for i := n - 1; i > 0; i-- {
		j := st.Intn(i + 1)
		p[i], p[j] = p[j], p[i]
	}
	return p
}

// ---------------------------------------------------------------------------
// Wire format.

// Violation is one property violation found by an oracle.
type Violation struct {
	Property string `json:"property"`
	// Class is what the shrinker keeps constant: a short stable name of the
	// kind of failure (e.g. "getnext-panic", "replica-output-diverged").
	Class string `json:"class"`
	// Sig identifies the specific call site / input shape / history pattern;
	// known findings are matched on it.
	Sig    string `json:"sig"`
	Detail string `json:"detail"`
	Step   int    `json:"step"`
}

// Result is what executing one scenario yields.
type Result struct {
	Seed       uint64           `json:"seed"`
	Violations []Violation      `json:"violations,omitempty"`
	Stats      map[string]int64 `json:"stats,omitempty"`
	// Nontrivial: the run satisfied the property's non-triviality rule.
	Nontrivial bool `json:"nontrivial"`
	// Fingerprint identifies the path taken (digest of the event trace).
	Fingerprint string `json:"fp"`
	SimMillis   int64  `json:"sim_ms"`
	Steps       int    `json:"steps"`
	// Sample is a compact rendering of the scenario, kept for a few runs.
	Sample json.RawMessage `json:"sample,omitempty"`
	// Inconclusive runs are never violations (watchdog, model search timeout).
	Inconclusive string `json:"inconclusive,omitempty"`
}

func (r *Result) Add(stat string, n int64) {
	if r.Stats == nil {
		r.Stats = make(map[string]int64)
	}
	r.Stats[stat] += n
}

func (r *Result) Violate(prop, class, sig, detail string, step int) {
	for _, v := range r.Violations {
		if v.Property == prop && v.Sig == sig {
			return
		}
	}
	if len(detail) > 1500 {
		detail = detail[:1500] + "…"
	}
	r.Violations = append(r.Violations, Violation{prop, class, sig, detail, step})
}

// Engine is implemented by each simulation engine.
type Engine interface {
	// Generate builds the explicit scenario for a seed. prop selects the
	// scenario family (which property the run is biased towards).
	Generate(seed uint64, prop, tier string) (json.RawMessage, error)
	// Execute runs a scenario and evaluates the oracles.
	Execute(scenario json.RawMessage, prop string) (*Result, error)
}

// Trace is an append-only event log whose digest is the run fingerprint.
type Trace struct {
	h     uint64
	n     int
	Lines []string
	Keep  bool
}

func (t *Trace) Log(format string, a ...interface{}) {
	s := fmt.Sprintf(format, a...)
	hh := fnv.New64a()
	hh.Write([]byte(s))
	t.h = splitmix64(t.h ^ hh.Sum64())
	t.n++
	if t.Keep {
		t.Lines = append(t.Lines, s)
	}
}

func (t *Trace) Digest() string { return strconv.FormatUint(t.h, 16) + "/" + strconv.Itoa(t.n) }

// ---------------------------------------------------------------------------
// Worker protocol.
//
//	VERIF_MODE=run   VERIF_SEEDS=<file with one seed per line>  -> generate+execute each
//	VERIF_MODE=gen   VERIF_SEEDS=<file>                         -> print scenario per seed
//	VERIF_MODE=exec  VERIF_SCENARIO=<file>                      -> execute that scenario
//
// Output on stdout, one record per line, prefixed so that library noise cannot
// be confused with it:
//
//	@@START <seed>
//	@@RESULT <json Result>
//	@@SCENARIO <seed> <json>
//	@@ERROR <text>            (harness trouble: never a violation)

func out(prefix, s string) {
	os.Stdout.WriteString(prefix + " " + s + "\n")
}

func readSeeds(path string) ([]uint64, error) {
	b, err := os.ReadFile(path)
	if err != nil {
		return nil, err
	}
	var seeds []uint64
	for _, f := range strings.Fields(string(b)) {
		v, err := strconv.ParseUint(f, 10, 64)
		if err != nil {
			return nil, err
		}
		seeds = append(seeds, v)
	}
	return seeds, nil
}

// SafeExecute runs Execute and converts a harness panic into an error text
// (engines recover panics of the code under test themselves where a panic is
// a property violation).
func SafeExecute(e Engine, sc json.RawMessage, prop string) (res *Result, err error) {
	defer func() {
		if r := recover(); r != nil {
			err = fmt.Errorf("harness panic: %v\n%s", r, debug.Stack())
		}
	}()
	return e.Execute(sc, prop)
}

// WorkerMain implements the worker protocol; it returns the process exit code.
func WorkerMain(e Engine) int {
	mode := os.Getenv("VERIF_MODE")
	prop := os.Getenv("VERIF_PROP")
	tier := os.Getenv("VERIF_TIER")
	if tier == "" {
		tier = "quick"
	}
	wantSample := os.Getenv("VERIF_SAMPLES") != ""
	switch mode {
	case "run", "gen":
		seeds, err := readSeeds(os.Getenv("VERIF_SEEDS"))
		if err != nil {
			out("@@ERROR", err.Error())
			return 2
		}
		for i, seed := range seeds {
			sc, err := e.Generate(seed, prop, tier)
			if err != nil {
				out("@@ERROR", fmt.Sprintf("generate seed %d: %v", seed, err))
				return 2
			}
			if mode == "gen" {
				out("@@SCENARIO", strconv.FormatUint(seed, 10)+" "+string(sc))
				continue
			}
			out("@@START", strconv.FormatUint(seed, 10))
			t0 := time.Now()
			res, err := SafeExecute(e, sc, prop)
			if err != nil {
				out("@@ERROR", fmt.Sprintf("execute seed %d: %v", seed, err))
				return 2
			}
			res.Seed = seed
			res.Add("wall_us", time.Since(t0).Microseconds())
			if wantSample && i < 2 {
				res.Sample = sc
			}
			b, _ := json.Marshal(res)
			out("@@RESULT", string(b))
		}
		return 0
	case "exec":
		b, err := os.ReadFile(os.Getenv("VERIF_SCENARIO"))
		if err != nil {
			out("@@ERROR", err.Error())
			return 2
		}
		// A replay file wraps the scenario; accept both.
		var wrap struct {
			Scenario json.RawMessage `json:"scenario"`
		}
		sc := json.RawMessage(b)
		if json.Unmarshal(b, &wrap) == nil && len(wrap.Scenario) > 0 {
			sc = wrap.Scenario
		}
		out("@@START", "0")
		// VERIF_REPEAT: for engines with a residual unseeded coin (the runtime's map iteration order)
		// a scenario is executed up to N times and the first run that shows a violation is reported.
		repeat, _ := strconv.Atoi(os.Getenv("VERIF_REPEAT"))
		if repeat < 1 {
			repeat = 1
		}
		var res *Result
		for k := 0; k < repeat; k++ {
			res, err = SafeExecute(e, sc, prop)
			if err != nil {
				out("@@ERROR", fmt.Sprintf("execute: %v", err))
				return 2
			}
			if len(res.Violations) > 0 {
				break
			}
		}
		rb, _ := json.Marshal(res)
		out("@@RESULT", string(rb))
		return 0
	default:
		out("@@ERROR", "VERIF_MODE not set (this test binary is a simulation worker; run it through /verif/bin/check)")
		return 2
	}
}

// SortedKeys is a helper for deterministic iteration in harness code.
func SortedKeys[V any](m map[string]V) []string {
	ks := make([]string, 0, len(m))
	for k := range m {
		ks = append(ks, k)
	}
	sort.Strings(ks)
	return ks
}
