package main

// Engine C07 (message of death): the panic path ends in glog.Fatalf, i.e.
// process exit, so every node incarnation runs in a child process (this same
// test binary in "c07child" mode, with the test-only PANIC command enabled).
// The parent generates the history, drives the incarnations (apply until death,
// restart+replay, snapshot, restart+restore), inspects the durable log between
// them and compares with a twin that applied the log with the poisoned entry
// already marked.

import (
	"encoding/json"
	"fmt"
	"os"
	"os/exec"
	"path/filepath"
	"strings"
	"testing"
	"time"

	"github.com/hashicorp/raft"
	"github.com/robustirc/robustirc/internal/ircserver"
	"github.com/robustirc/robustirc/internal/raftstore"
	"github.com/robustirc/robustirc/internal/robust"
	"github.com/robustirc/robustirc/internal/verifsim/core"
)

type c07Step struct {
	K    string `json:"k"` // create | line | svcline | panic | advance | noop
	S    int    `json:"s,omitempty"`
	Data string `json:"d,omitempty"`
	Ms   int64  `json:"ms,omitempty"`
}

type c07Scenario struct {
	Engine string    `json:"engine"`
	Steps  []c07Step `json:"steps"`
	// what happens after the crash
	SnapBefore bool `json:"snap_before"` // a snapshot exists before the poisoned entry is applied
	SnapAfter  int  `json:"snap_after"`  // 0: none; 1: snapshot after the restart folding the marked entry; 2: snapshot keeping it in the log copy
	Offset     bool `json:"offset"`
	JSON       bool `json:"jsonenc,omitempty"` // the node runs with -pre1.0_protobuf=false (JSON log encoding)
}

type c07Engine struct{}

func (c07Engine) Generate(seed uint64, prop, tier string) (json.RawMessage, error) {
	g := core.NewSource(seed).Stream("gen")
	sc := c07Scenario{Engine: "c07", SnapBefore: g.Chance(1, 3), SnapAfter: g.Intn(3), Offset: g.Chance(1, 2)}
	sc.JSON = core.NewSource(seed).Stream("enc").Chance(1, 3)
	add := func(s c07Step) { sc.Steps = append(sc.Steps, s) }
	add(c07Step{K: "config"})
	nsess := g.Range(2, 4)
	for u := 0; u < nsess; u++ {
		add(c07Step{K: "create"})
		add(c07Step{K: "line", S: u, Data: "NICK " + e1NicksC07[u]})
		add(c07Step{K: "line", S: u, Data: fmt.Sprintf("USER u%d 0 * :User", u)})
		if g.Chance(2, 3) {
			add(c07Step{K: "line", S: u, Data: "JOIN #c07"})
		}
	}
	svc := -1
	if g.Chance(1, 3) {
		add(c07Step{K: "create"})
		svc = nsess
		nsess++
		add(c07Step{K: "line", S: svc, Data: "PASS services=spw"})
		add(c07Step{K: "line", S: svc, Data: "SERVER services.robustirc.net 1 :Services"})
		add(c07Step{K: "line", S: svc, Data: "NICK ChanServ 1 1422134861 services localhost.net services.localhost.net 0 :ChanServ"})
	}
	if g.Chance(1, 3) {
		add(c07Step{K: "line", S: 0, Data: "OPER root opw"})
	}
	body := func(n int) {
		for i := 0; i < n; i++ {
			s := g.Intn(nsess)
			if s == svc {
				add(c07Step{K: "line", S: s, Data: ":ChanServ PRIVMSG #c07 :service message " + fmt.Sprint(i)})
				continue
			}
			switch g.Intn(6) {
			case 0:
				add(c07Step{K: "line", S: s, Data: "PRIVMSG #c07 :hello " + fmt.Sprint(i)})
			case 1:
				add(c07Step{K: "line", S: s, Data: "TOPIC #c07 :topic " + fmt.Sprint(i)})
			case 2:
				add(c07Step{K: "line", S: s, Data: "PING :x"})
			case 3:
				add(c07Step{K: "advance", Ms: int64(g.Range(1, 400)) * 1000})
			case 4:
				add(c07Step{K: "noop"})
			default:
				add(c07Step{K: "line", S: s, Data: "NAMES #c07"})
			}
		}
	}
	body(g.Range(0, 8))
	// the poisoned entry: from an ordinary, an operator, an unregistered or a services session
	ps := g.Intn(nsess)
	if g.Chance(1, 8) {
		add(c07Step{K: "create"})
		ps = nsess // unregistered: the command gate answers 451, nothing panics
		nsess++
	}
	pl := "PANIC"
	if ps == svc {
		pl = ":ChanServ PANIC"
	}
	if g.Chance(1, 3) {
		pl += " :with text"
	}
	add(c07Step{K: "panic", S: ps, Data: pl})
	body(g.Range(1, 8))
	if g.Chance(1, 4) {
		// a second poisoned entry later in the log
		add(c07Step{K: "panic", S: g.Intn(nsess), Data: "PANIC again"})
		body(g.Range(1, 4))
	}
	return json.Marshal(sc)
}

var e1NicksC07 = []string{"alice", "bob", "carol", "dave", "eve"}

const c07Config = "SessionExpiration = \"10m0s\"\nPostMessageCooloff = \"0s\"\n[IRC]\n[[IRC.Operators]]\nName = \"root\"\nPassword = \"opw\"\n[[IRC.Services]]\nPassword = \"spw\"\n"

// ---- child side ----

type c07Job struct {
	Dir    string  `json:"dir"`
	JSON   bool    `json:"jsonenc"`
	Offset uint64  `json:"offset"`
	Ops    []c07Op `json:"ops"`
	Out    string  `json:"out"`
}

type c07Op struct {
	Op   string `json:"op"` // start | restore | apply | snapshot | dump
	From uint64 `json:"from,omitempty"`
	To   uint64 `json:"to,omitempty"`
	T    int64  `json:"t,omitempty"`
}

type c07Out struct {
	Applied   uint64            `json:"applied"`
	Dump      string            `json:"dump"`
	Outputs   map[string]string `json:"outputs"` // index -> rendered output batch
	Restored  uint64            `json:"restored"`
	Snapshots int               `json:"snapshots"`
	Err       string            `json:"err"`
}

func c07Child() int {
	b, err := os.ReadFile(os.Getenv("VERIF_C07_JOB"))
	if err != nil {
		fmt.Println("child:", err)
		return 3
	}
	var job c07Job
	if err := json.Unmarshal(b, &job); err != nil {
		fmt.Println("child:", err)
		return 3
	}
	e1InitFlags()
	robust.MessageOffset = job.Offset
	*useProtobuf = !job.JSON
	n := &e1Node{idx: 1, dir: job.Dir, proto: !job.JSON, protoSet: true}
	out := c07Out{Outputs: map[string]string{}}
	flush := func() {
		jb, _ := json.Marshal(&out)
		os.WriteFile(job.Out, jb, 0600)
	}
	for _, op := range job.Ops {
		switch op.Op {
		case "start":
			if err := n.start(); err != nil {
				out.Err = "start: " + err.Error()
				flush()
				return 3
			}
		case "restore":
			if sb, idx, ok := n.newestSnapshot(); ok {
				if err, p, _ := n.restoreFrom(sb, idx); err != nil || p != nil {
					out.Err = fmt.Sprintf("restore: %v %v", err, p)
					flush()
					return 4
				}
				out.Restored = idx
			}
		case "apply":
			from := op.From
			if from <= n.applied {
				from = n.applied + 1
			}
			for i := from; i <= op.To; i++ {
				var l raft.Log
				if err := n.logs.GetLog(i, &l); err != nil {
					out.Err = fmt.Sprintf("GetLog(%d): %v", i, err)
					flush()
					return 3
				}
				n.use()
				n.fsm.Apply(&l) // a panic inside ends the process through glog.Fatalf (exit 255)
				n.save()
				n.applied = i
				out.Applied = i
				if l.Type == raft.LogCommand {
					if ms, ok := n.out.Get(robust.Id{Id: robust.IdFromRaftIndex(i)}); ok {
						out.Outputs[fmt.Sprint(i)] = outString(renderOut(ms))
					}
				}
				flush()
			}
		case "snapshot":
			sr := n.snapshot(time.Unix(0, op.T), -1, false)
			if sr.err != nil {
				out.Err = "snapshot: " + sr.err.Error()
			} else {
				out.Snapshots++
			}
		case "dump":
			out.Dump = ircserver.VerifDump(n.irc)
		}
		flush()
	}
	n.stop()
	flush()
	return 0
}

// ---- parent side ----

type c07Run struct {
	res   *core.Result
	tr    *core.Trace
	root  string
	dir   string
	sc    *c07Scenario
	log   []*logEntry
	panic []uint64        // indexes of entries carrying the PANIC command (they only panic if the command gate lets them through)
	died  map[uint64]bool // indexes at which an incarnation actually died (= entries that must be marked)
	now   time.Time
}

func (r *c07Run) violate(class, sig, f string, a ...interface{}) {
	r.res.Violate("C07", class, sig, fmt.Sprintf(f, a...), 0)
}

func (r *c07Run) child(ops []c07Op) (int, *c07Out, string) {
	job := c07Job{Dir: r.dir, JSON: r.sc.JSON, Ops: ops, Out: filepath.Join(r.root, "child.out"), Offset: robust.MessageOffset}
	os.Remove(job.Out)
	jb, _ := json.Marshal(&job)
	jf := filepath.Join(r.root, "job.json")
	os.WriteFile(jf, jb, 0600)
	cmd := exec.Command(os.Args[0], "-test.run", "^TestVerifWorker$", "-test.timeout", "120s")
	cmd.Env = append(os.Environ(), "VERIF_MODE=c07child", "VERIF_C07_JOB="+jf, "ROBUSTIRC_TESTING_ENABLE_PANIC_COMMAND=1")
	ob, _ := cmd.CombinedOutput()
	code := 0
	if cmd.ProcessState != nil {
		code = cmd.ProcessState.ExitCode()
	}
	var out c07Out
	if b, err := os.ReadFile(job.Out); err == nil {
		json.Unmarshal(b, &out)
	}
	r.res.Add("child_processes", 1)
	return code, &out, string(ob)
}

func tail(s string, n int) string {
	l := strings.Split(strings.TrimSpace(s), "\n")
	if len(l) > n {
		l = l[len(l)-n:]
	}
	return strings.Join(l, "\n")
}

func (c07Engine) Execute(raw json.RawMessage, prop string) (*core.Result, error) {
	var sc c07Scenario
	if err := json.Unmarshal(raw, &sc); err != nil {
		return nil, err
	}
	res := &core.Result{}
	root, err := os.MkdirTemp("", "c07-")
	if err != nil {
		return nil, err
	}
	defer os.RemoveAll(root)
	e1InitFlags()
	*useProtobuf = !sc.JSON
	defer func() { *useProtobuf = true }()
	robust.MessageOffset = 0
	if sc.Offset {
		robust.MessageOffset = prodMessageOffsetC07
	}
	defer func() { robust.MessageOffset = 0 }()
	r := &c07Run{res: res, tr: &core.Trace{}, root: root, dir: filepath.Join(root, "node"), sc: &sc, now: time.Now().Add(-2 * time.Hour), died: map[uint64]bool{}}
	// --- build the log ---
	var sessions []uint64
	cmid := uint64(100)
	appendMsg := func(typ raft.LogType, m *robust.Message) *logEntry {
		idx := uint64(len(r.log) + 1)
		e := &logEntry{Index: idx, Type: typ}
		if m != nil {
			m.UnixNano = r.now.UnixNano()
			e.Data = encodeMsg(m)
			mm := robust.NewMessageFromBytes(e.Data, robust.IdFromRaftIndex(idx))
			e.Msg, e.TS = &mm, mm.Timestamp()
		}
		r.log = append(r.log, e)
		r.now = r.now.Add(50 * time.Millisecond)
		return e
	}
	for _, st := range sc.Steps {
		sid := uint64(0)
		if len(sessions) > 0 {
			k := st.S
			if k < 0 {
				k = -k
			}
			sid = sessions[k%len(sessions)]
		}
		switch st.K {
		case "config":
			appendMsg(raft.LogCommand, &robust.Message{Type: robust.Config, Data: c07Config, Revision: 1})
		case "create":
			e := appendMsg(raft.LogCommand, &robust.Message{Type: robust.CreateSession, Data: fmt.Sprintf("auth-%d-xxxxxxxxxxxx", len(sessions))})
			sessions = append(sessions, e.Msg.Id.Id)
		case "line", "panic":
			if sid == 0 {
				continue
			}
			cmid++
			e := appendMsg(raft.LogCommand, &robust.Message{Session: robust.Id{Id: sid}, Type: robust.IRCFromClient, Data: st.Data, ClientMessageId: cmid})
			if st.K == "panic" {
				r.panic = append(r.panic, e.Index)
			}
		case "noop":
			appendMsg(raft.LogNoop, nil)
		case "advance":
			r.now = r.now.Add(time.Duration(st.Ms) * time.Millisecond)
		}
	}
	N := uint64(len(r.log))
	if N == 0 {
		return res, nil
	}
	// the entries become durable in the node's raft log (raft stores before it applies)
	os.MkdirAll(r.dir, 0700)
	ls, err := raftstore.NewLevelDBStore(filepath.Join(r.dir, "raftlog"), false, !sc.JSON)
	if err != nil {
		return nil, err
	}
	if sc.JSON {
		res.Add("json_encoded_runs", 1)
	}
	for _, e := range r.log {
		if err := ls.StoreLog(&raft.Log{Index: e.Index, Term: 1, Type: e.Type, Data: e.Data}); err != nil {
			return nil, err
		}
	}
	ls.Close()

	// --- incarnations ---
	applied := uint64(0)
	first := true
	deaths := 0
	for guard := 0; guard < 8 && applied < N; guard++ {
		ops := []c07Op{{Op: "start"}, {Op: "restore"}}
		if first && sc.SnapBefore && len(r.panic) > 0 && r.panic[0] > 2 {
			// apply up to just before the poisoned entry, snapshot (nothing old enough to fold), go on
			ops = append(ops, c07Op{Op: "apply", To: r.panic[0] - 1}, c07Op{Op: "snapshot", T: r.log[0].TS.Add(time.Minute).UnixNano()})
		}
		ops = append(ops, c07Op{Op: "apply", To: N}, c07Op{Op: "dump"})
		code, out, text := r.child(ops)
		first = false
		r.tr.Log("incarnation %d: exit %d applied %d restored %d", guard, code, out.Applied, out.Restored)
		if code == 0 {
			applied = out.Applied
			r.compareWithTwin(out, "after replay")
			break
		}
		// the process died: it must be the message-of-death path, at a poisoned entry
		deaths++
		res.Add("deaths", 1)
		dead := out.Applied + 1
		if out.Restored > out.Applied {
			dead = out.Restored + 1
		}
		if code != 255 {
			r.violate("wrong-exit", "wrong-exit", "the node process ended with status %d (want 255 through the message-of-death path) while applying index %d:\n%s", code, dead, tail(text, 12))
			return r.finish(res), nil
		}
		if !r.isPoison(dead) {
			r.violate("died-elsewhere", "died-elsewhere", "the node process died (exit 255) while applying index %d (%s), which is not a poisoned entry (poisoned: %v; incarnation %d):\n%s", dead, descr(r.log[dead-1]), r.panic, guard, tail(text, 8))
			return r.finish(res), nil
		}
		r.died[dead] = true
		// durable log: exactly that entry is marked, everything else untouched
		if !r.checkStoredLog(dead) {
			return r.finish(res), nil
		}
		applied = out.Applied
	}
	if applied < N && len(res.Violations) == 0 {
		r.violate("no-progress", "no-progress", "after %d restarts the node still has not applied the whole log (%d of %d)", deaths, applied, N)
	}
	// --- snapshot after the restart, then restart from the snapshot ---
	if len(res.Violations) == 0 && sc.SnapAfter > 0 && deaths > 0 {
		T := r.log[N-1].TS.Add(10*time.Minute + 11*time.Second) // everything is older than the horizon: the marked entry is folded
		if sc.SnapAfter == 2 {
			T = r.log[0].TS.Add(time.Minute) // nothing is old enough: the marked entry stays in the log copy
		}
		code, out, text := r.child([]c07Op{{Op: "start"}, {Op: "restore"}, {Op: "apply", To: N}, {Op: "snapshot", T: T.UnixNano()}, {Op: "dump"}})
		if code != 0 || out.Snapshots != 1 {
			r.violate("snapshot-incarnation-failed", "snapshot-incarnation-failed", "the incarnation that replays and snapshots ended with status %d (snapshots taken: %d, %s):\n%s", code, out.Snapshots, out.Err, tail(text, 8))
			return r.finish(res), nil
		}
		res.Add("snapshots_after_marking", 1)
		r.compareWithTwin(out, "after replay+snapshot")
		code, out, text = r.child([]c07Op{{Op: "start"}, {Op: "restore"}, {Op: "apply", To: N}, {Op: "dump"}})
		if code != 0 {
			r.violate("restore-incarnation-died", "restore-incarnation-died", "restarting from the snapshot taken after the entry was marked ended with status %d at index %d:\n%s", code, out.Applied+1, tail(text, 8))
			return r.finish(res), nil
		}
		if out.Restored == 0 {
			r.violate("snapshot-not-used", "snapshot-not-used", "no snapshot was restored on restart")
		}
		res.Add("restores_after_marking", 1)
		r.compareWithTwin(out, fmt.Sprintf("after restore of the snapshot (variant %d)", sc.SnapAfter))
	}
	return r.finish(res), nil
}

const prodMessageOffsetC07 = 4648398125000000000

func (r *c07Run) finish(res *core.Result) *core.Result {
	res.Steps = len(r.sc.Steps)
	res.Fingerprint = r.tr.Digest() + fmt.Sprintf("/%d/%v", len(r.log), r.panic)
	res.Nontrivial = res.Stats["deaths"] >= 1 && res.Stats["twin_comparisons"] >= 1
	return res
}

func (r *c07Run) isPoison(idx uint64) bool {
	for _, p := range r.panic {
		if p == idx {
			return true
		}
	}
	return false
}

// checkStoredLog: after a death at index dead, the durable raft log holds every entry byte-identical,
// except the poisoned entries processed so far which carry type MessageOfDeath and are otherwise equal.
func (r *c07Run) checkStoredLog(dead uint64) bool {
	ls, err := raftstore.NewLevelDBStore(filepath.Join(r.dir, "raftlog"), false, !r.sc.JSON)
	if err != nil {
		r.violate("log-unreadable", "log-unreadable", "raft log cannot be opened after the crash: %v", err)
		return false
	}
	defer ls.Close()
	ok := true
	for _, e := range r.log {
		var l raft.Log
		if err := ls.GetLog(e.Index, &l); err != nil {
			r.violate("log-entry-lost", "log-entry-lost", "after the crash at index %d, entry %d is missing from the raft log: %v", dead, e.Index, err)
			return false
		}
		if e.Msg == nil {
			continue
		}
		m := robust.NewMessageFromBytes(l.Data, robust.IdFromRaftIndex(l.Index))
		want := *e.Msg
		if r.died[e.Index] {
			if m.Type != robust.MessageOfDeath {
				r.violate("not-marked", "not-marked", "the process died applying index %d but the stored entry %d has type %s, not message_of_death", dead, e.Index, m.Type)
				ok = false
				continue
			}
			want.Type = robust.MessageOfDeath
			r.res.Add("marked_entries_verified", 1)
		}
		if m.Type != want.Type || m.Data != want.Data || m.Session != want.Session || m.ClientMessageId != want.ClientMessageId || m.UnixNano != want.UnixNano || m.Id != want.Id {
			r.violate("other-entry-changed", "other-entry-changed", "after the crash at index %d, stored entry %d reads %+v, was %+v", dead, e.Index, m, want)
			if r.died[e.Index] && m.ClientMessageId != want.ClientMessageId {
				r.res.Violate("C10", "marker-not-set-by-marked-entry", "marked-entry-lost-client-message-id", fmt.Sprintf("the entry marked as message of death at index %d is stored with client message id %d, the message carried %d: on every replay the session's duplicate marker is set to the wrong id and the client's retry of that POST is applied again", e.Index, m.ClientMessageId, want.ClientMessageId), 0)
			}
			ok = false
		}
	}
	return ok
}

// compareWithTwin: a second replica that only ever sees the poisoned entries already marked.
func (r *c07Run) compareWithTwin(out *c07Out, when string) {
	tw := &e1Node{idx: 0, dir: filepath.Join(r.root, fmt.Sprintf("twin%d", r.res.Stats["twin_comparisons"])), proto: !r.sc.JSON, protoSet: true}
	if err := tw.start(); err != nil {
		r.res.Inconclusive = "harness: twin: " + err.Error()
		return
	}
	defer tw.stop()
	for _, e := range r.log {
		ee := *e
		if r.died[e.Index] && e.Msg != nil {
			m := *e.Msg
			m.Type = robust.MessageOfDeath
			ee.Data = encodeMsg(&m)
		}
		if err := tw.store(&ee); err != nil {
			r.res.Inconclusive = "harness: twin store: " + err.Error()
			return
		}
		o := tw.applyEntry(&ee)
		if o.panicked != nil {
			r.violate("marked-entry-panics", "marked-entry-panics", "a replica that sees index %d already marked panicked: %v", e.Index, o.panicked)
			return
		}
		if r.died[e.Index] && e.Msg != nil {
			// "the session's duplicate-detection marker still advances": what the POST handler consults
			// after the marked entry was skipped is the id of that entry
			if _, err := tw.irc.GetSession(e.Msg.Session); err == nil {
				r.res.Add("markers_after_marked_entry_checked", 1)
				if got := tw.irc.LastPostMessage(e.Msg.Session); got != e.Msg.ClientMessageId {
					for _, p := range []string{"C07", "C10"} {
						r.res.Violate(p, "marker-not-advanced", "marker-not-advanced-by-marked-entry", fmt.Sprintf("a replica skipped index %d, marked as message of death (client message id %d), and its duplicate marker for the session reads %d: the client's retry of that POST would be applied (and kill the node) again", e.Index, e.Msg.ClientMessageId, got), 0)
					}
				}
			}
		}
		if r.died[e.Index] {
			if ms, ok := tw.out.Get(robust.Id{Id: robust.IdFromRaftIndex(e.Index)}); ok && len(ms) > 0 {
				r.violate("marked-entry-output", "marked-entry-output", "a marked entry (index %d) produced output on a replica: %s", e.Index, outString(renderOut(ms)))
			}
		}
	}
	r.res.Add("twin_comparisons", 1)
	want := ircserver.VerifDump(tw.irc)
	if unk, _ := stateDiffC07(want, out.Dump); unk != "" {
		r.violate("state-differs", "state-differs:"+unk, "%s: the node that crashed and restarted differs from a replica that saw the entry already marked (poisoned indexes %v):\n%s", when, r.panic, firstDiff(want, out.Dump))
		if strings.Contains(unk, "lastClientMessageId") {
			r.res.Violate("C10", "marker-diverged", "marker-diverged-after-crash", fmt.Sprintf("%s: the duplicate-detection marker of the node that crashed at the poisoned entry and restarted differs from a replica that saw the entry already marked (poisoned indexes %v):\n%s", when, r.panic, firstDiff(want, out.Dump)), 0)
		}
	}
	for p := range r.died {
		if s, ok := out.Outputs[fmt.Sprint(p)]; ok && s != "" {
			r.violate("marked-entry-output", "marked-entry-output", "%s: the restarted node holds output for the marked entry %d: %s", when, p, s)
		}
	}
}

func stateDiffC07(a, b string) (string, string) {
	if a == b {
		return "", ""
	}
	la, lb := strings.Split(a, "\n"), strings.Split(b, "\n")
	for k := 0; k < len(la) || k < len(lb); k++ {
		var x, y string
		if k < len(la) {
			x = la[k]
		}
		if k < len(lb) {
			y = lb[k]
		}
		if x != y {
			l := x
			if l == "" {
				l = y
			}
			if eq := strings.Index(l, "="); eq > 0 {
				l = l[:eq]
			}
			if i := strings.Index(l, "["); i > 0 {
				if j := strings.LastIndex(l, "]"); j > i {
					l = l[:i] + "[]" + l[j+1:]
				}
			}
			return l, ""
		}
	}
	return "", ""
}

func TestVerifWorker(t *testing.T) {
	switch os.Getenv("VERIF_MODE") {
	case "":
		t.Skip("simulation worker; run through /verif/bin/check")
	case "c07child":
		os.Exit(c07Child())
	}
	if code := core.WorkerMain(c07Engine{}); code != 0 {
		os.Exit(code)
	}
}
