// Command rewrite generates the "mapseam" overlay: copies of the current source files of one
// package in which every `for k, v := range X` over a map X becomes an iteration over
// verifrt.Keys(X) - the keys in a seeded, replayable order owned by the simulator.
//
// Every rewritten execution is a legal execution of the original program: the Go spec leaves the
// iteration order unspecified, entries deleted during the loop are skipped and entries added
// during it are not produced. Loops that cannot be rewritten safely are left native and counted.
//
// usage: rewrite <module root> <package dir relative to root> <output dir>
// prints a JSON object {"files": {relative path: generated file}, "rewritten": n, "native": m}.
package main

import (
	"bytes"
	"encoding/json"
	"fmt"
	"go/ast"
	"go/format"
	"go/importer"
	"go/parser"
	"go/token"
	"go/types"
	"os"
	"path/filepath"
	"sort"
	"strings"
)

const rtImport = "github.com/robustirc/robustirc/internal/verifsim/verifrt"

func main() {
	if len(os.Args) != 4 {
		fmt.Fprintln(os.Stderr, "usage: rewrite <root> <pkgdir> <outdir>")
		os.Exit(2)
	}
	root, pkgdir, outdir := os.Args[1], os.Args[2], os.Args[3]
	dir := filepath.Join(root, pkgdir)
	if err := os.Chdir(root); err != nil {
		fail(err)
	}
	fset := token.NewFileSet()
	pkgs, err := parser.ParseDir(fset, dir, func(fi os.FileInfo) bool { return !strings.HasSuffix(fi.Name(), "_test.go") }, parser.ParseComments)
	if err != nil {
		fail(err)
	}
	var files []*ast.File
	var names []string
	for _, p := range pkgs {
		var fn []string
		for n := range p.Files {
			fn = append(fn, n)
		}
		sort.Strings(fn)
		for _, n := range fn {
			files = append(files, p.Files[n])
			names = append(names, n)
		}
	}
	info := &types.Info{Types: map[ast.Expr]types.TypeAndValue{}, Defs: map[*ast.Ident]types.Object{}, Uses: map[*ast.Ident]types.Object{}}
	conf := types.Config{Importer: importer.ForCompiler(fset, "source", nil), Error: func(error) {}}
	if _, err := conf.Check(pkgdir, fset, files, info); err != nil {
		// type errors in dependencies' bodies are irrelevant as long as the expressions we need are typed
	}
	res := struct {
		Files     map[string]string `json:"files"`
		Rewritten int               `json:"rewritten"`
		Native    int               `json:"native"`
	}{Files: map[string]string{}}
	os.MkdirAll(outdir, 0755)
	for i, f := range files {
		changed := false
		counter := 0
		var rewriteBlock func(list []ast.Stmt)
		var visit func(n ast.Node) bool
		visit = func(n ast.Node) bool {
			rs, ok := n.(*ast.RangeStmt)
			if !ok {
				return true
			}
			tv, ok := info.Types[rs.X]
			if !ok || tv.Type == nil {
				return true
			}
			if _, isMap := tv.Type.Underlying().(*types.Map); !isMap {
				return true
			}
			if !pure(rs.X) || rs.Tok == token.ASSIGN {
				res.Native++
				return true
			}
			counter++
			keyName := "_"
			if id, ok := rs.Key.(*ast.Ident); ok && rs.Key != nil {
				keyName = id.Name
			} else if rs.Key != nil {
				res.Native++
				return true
			}
			valName := "_"
			if rs.Value != nil {
				id, ok := rs.Value.(*ast.Ident)
				if !ok {
					res.Native++
					return true
				}
				valName = id.Name
			}
			k := keyName
			if k == "_" {
				k = fmt.Sprintf("verifKey%d", counter)
			}
			okName := fmt.Sprintf("verifOk%d", counter)
			// prologue: v, ok := X[k]; if !ok { continue }
			lhsV := ast.NewIdent(valName)
			pro := []ast.Stmt{
				&ast.AssignStmt{Lhs: []ast.Expr{lhsV, ast.NewIdent(okName)}, Tok: token.DEFINE, Rhs: []ast.Expr{&ast.IndexExpr{X: rs.X, Index: ast.NewIdent(k)}}},
				&ast.IfStmt{Cond: &ast.UnaryExpr{Op: token.NOT, X: ast.NewIdent(okName)}, Body: &ast.BlockStmt{List: []ast.Stmt{&ast.BranchStmt{Tok: token.CONTINUE}}}},
			}
			rs.Body.List = append(pro, rs.Body.List...)
			rs.Key = ast.NewIdent("_")
			rs.Value = ast.NewIdent(k)
			rs.Tok = token.DEFINE
			rs.X = &ast.CallExpr{Fun: &ast.SelectorExpr{X: ast.NewIdent("verifrt"), Sel: ast.NewIdent("Keys")}, Args: []ast.Expr{rs.X}}
			changed = true
			res.Rewritten++
			return true
		}
		_ = rewriteBlock
		ast.Inspect(f, visit)
		if !changed {
			continue
		}
		// add the import
		addImport(f)
		var buf bytes.Buffer
		if err := format.Node(&buf, fset, f); err != nil {
			fail(err)
		}
		rel, _ := filepath.Rel(root, names[i])
		out := filepath.Join(outdir, strings.ReplaceAll(rel, string(filepath.Separator), "_"))
		if err := os.WriteFile(out, buf.Bytes(), 0644); err != nil {
			fail(err)
		}
		res.Files[rel] = out
	}
	json.NewEncoder(os.Stdout).Encode(res)
}

// pure: identifiers and field selectors only (evaluating X twice must be harmless).
func pure(e ast.Expr) bool {
	switch t := e.(type) {
	case *ast.Ident:
		return true
	case *ast.SelectorExpr:
		return pure(t.X)
	case *ast.ParenExpr:
		return pure(t.X)
	}
	return false
}

func addImport(f *ast.File) {
	spec := &ast.ImportSpec{Path: &ast.BasicLit{Kind: token.STRING, Value: fmt.Sprintf("%q", rtImport)}}
	for _, d := range f.Decls {
		if gd, ok := d.(*ast.GenDecl); ok && gd.Tok == token.IMPORT {
			gd.Specs = append(gd.Specs, spec)
			if !gd.Lparen.IsValid() {
				gd.Lparen = gd.Pos()
				gd.Rparen = gd.End()
			}
			f.Imports = append(f.Imports, spec)
			return
		}
	}
	gd := &ast.GenDecl{Tok: token.IMPORT, Specs: []ast.Spec{spec}}
	f.Decls = append([]ast.Decl{gd}, f.Decls...)
	f.Imports = append(f.Imports, spec)
}

func fail(err error) {
	fmt.Fprintln(os.Stderr, "rewrite:", err)
	os.Exit(1)
}
